#!/usr/bin/env python3
"""Regenerates the seeded-changes table of DESIGN.md from seeded/*/meta.json."""
import glob, json, os, re
base = os.path.dirname(os.path.abspath(__file__))
rows = []
for f in sorted(glob.glob(os.path.join(base, "seeded", "*", "meta.json"))):
    m = json.load(open(f))
    needs = " ".join(m.get("needs_to_manifest", "").split())[:230]
    det = ", ".join(m.get("detected_by") or []) or ("not reported - see the assessment in the text" if m.get("assessment") else "NOT DETECTED")
    first = ""
    for p, v in (m.get("first_violation_lines") or {}).items():
        if v and p in (m.get("detected_by") or []):
            mm = re.search(r"oracle=(\S+) key=(\S+)", v[0])
            if mm:
                first = "%s/%s" % (mm.group(1), mm.group(2))
            break
    rows.append("| %s | %s | %s | %s | %s |" % (m["name"], m["property"], needs.replace("|", "/"), det, first.replace("|", "/")))
table = "| change | property | what it needs to manifest (agent's words, abridged) | caught by (quick tier) | first oracle/key |\n|---|---|---|---|---|\n" + "\n".join(rows)
n_det = sum(1 for r in rows if "NOT DETECTED" not in r and "not reported" not in r)
table += "\n\n%d of %d confirmed changes are caught by the quick tier (of the property they were written against or of the one named).\n" % (n_det, len(rows))
p = os.path.join(base, "DESIGN.md")
s = open(p).read()
s = re.sub(r"<!-- SEEDED-TABLE-BEGIN -->.*<!-- SEEDED-TABLE-END -->", "<!-- SEEDED-TABLE-BEGIN -->\n" + table + "<!-- SEEDED-TABLE-END -->", s, flags=re.S)
open(p, "w").write(s)
print(len(rows), "rows,", n_det, "detected")
