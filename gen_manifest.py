#!/usr/bin/env python3
"""Regenerates MANIFEST.json from props_meta.py (claimed checks) and the not-applicable list."""
import json, os, subprocess, sys
sys.path.insert(0, os.path.dirname(os.path.abspath(__file__)))
from props_meta import META, NOT_APPLICABLE, LEVEL_TEXT

ids = ["C%02d" % i for i in range(1, 21)]
checks = []
for i in ids:
    if i not in META:
        continue
    m = META[i]
    checks.append({
        "property_id": i,
        "quick_cmd": "python3 check.py %s quick" % i,
        "thorough_cmd": "python3 check.py %s thorough" % i,
        "evidence_file": "/verif/evidence/%s.json" % i,
        "replay_cmd_template": "python3 check.py %s --replay {path}" % i,
        "engine": "dsim",
        "level_claimed": {"category": m["level"], "text": LEVEL_TEXT[i], "design_ref": "DESIGN.md section 5, " + i},
        "level_note": "; ".join(m["assumptions"]),
        "technique": m.get("technique", "deterministic simulation with fault injection (seeded scheduler over synctest bubbles)"),
    })
na = [{"property_id": i, "reason": NOT_APPLICABLE[i]} for i in ids if i not in META]
commits = subprocess.run(["git", "-C", "/repo", "log", "--format=%H %s"], capture_output=True, text=True).stdout.splitlines()
hook_commits = [c.split()[0] for c in commits if c.split(" ", 1)[1].startswith("verif:")]
man = {
    "version": 1,
    "setup_cmd": "python3 setup.py",
    "hooks": {
        "guard": "verif",
        "enable": "go build tag: GOTOOLCHAIN=local go1.26.8 test -c -tags verif (check.py builds the simulator against /repo's working tree with the tag on)",
        "baseline_off_cmd": "cd /repo && GOFLAGS=-mod=mod GOPROXY=off go test -json -vet=off -count=1 -timeout 25m ./...",
        "source_commits": hook_commits,
        "add_only": True,
    },
    "engines": [{
        "name": "dsim", "path": "/verif/sim",
        "serves_properties": [c["property_id"] for c in checks],
        "kind_free_text": "deterministic simulator: one Go test binary (go1.26.8 testing/synctest bubble per run, seeded splitmix tape, "
                          "scheduler goroutine, guarded yield hooks, simulated http.RoundTripper, ddmin tape shrinking) driven by check.py",
    }],
    "checks": checks,
    "not_applicable": na,
    "notes": "Every check rebuilds the simulator from /repo's working tree. VERIF_SEED selects the batch seed (default 1); "
             "VERIF_REPO_DIR points the build at another tree; known_findings.json lists known/fixed findings.",
}
json.dump(man, open(os.path.join(os.path.dirname(os.path.abspath(__file__)), "MANIFEST.json"), "w"), indent=1)
print("checks:", [c["property_id"] for c in checks], "not_applicable:", [x["property_id"] for x in na])
