#!/usr/bin/env python3
"""Re-runs the quick check of its property against every stored seeded change (scratch copies of /repo).

  python3 seedall.py [name-prefix]     prints one line per change; exit 1 if any is no longer detected
"""
import glob, json, os, shutil, subprocess, sys, tempfile
VERIF = os.path.dirname(os.path.abspath(__file__))
ENV = dict(os.environ, GOFLAGS="-mod=mod", GOPROXY="off", GOSUMDB="off", GOTOOLCHAIN="local")
prefix = sys.argv[1] if len(sys.argv) > 1 else ""
missed = 0
for d in sorted(glob.glob(os.path.join(VERIF, "seeded", prefix + "*"))):
    meta = json.load(open(os.path.join(d, "meta.json")))
    scratch = tempfile.mkdtemp(prefix="seedall-", dir="/dev/shm" if os.access("/dev/shm", os.W_OK) else None)
    try:
        subprocess.check_call(["rsync", "-a", "--exclude", ".git", "/repo/", scratch + "/"])
        p = subprocess.run(["patch", "-p1", "-s", "--fuzz=3", "-i", os.path.join(d, "patch.diff")], cwd=scratch, capture_output=True, text=True)
        if p.returncode != 0:
            print("%-8s PATCH-FAILED" % meta["name"], flush=True)
            missed += 1
            continue
        env = dict(os.environ, VERIF_REPO_DIR=scratch)
        pr = subprocess.run([sys.executable, os.path.join(VERIF, "check.py"), meta["property"], "quick"], env=env, capture_output=True, text=True)
        first = next((l for l in pr.stdout.splitlines() if l.startswith("VIOLATION")), "")
        import re
        m = re.search(r"oracle=(\S+) key=(\S+)", first)
        print("%-8s rc=%d %s" % (meta["name"], pr.returncode, (m.group(1) + "/" + m.group(2)) if m else pr.stdout.strip().splitlines()[-1][:120]), flush=True)
        if pr.returncode != 1:
            missed += 1
    finally:
        shutil.rmtree(scratch, ignore_errors=True)
print("not detected: %d" % missed)
sys.exit(1 if missed else 0)
