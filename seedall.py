#!/usr/bin/env python3
"""Re-runs the quick checks against every stored seeded change (scratch copies of /repo, patch applied there).

  python3 seedall.py [name-prefix] [--update]

Each change is checked with the property it was written against and then with the properties listed under
"also_check" in its meta.json, until one reports it. One line per change; exit 1 if a change is reported by
none of them, unless its meta.json carries an "assessment" (a change judged not observable, see DESIGN §14).
--update rewrites detected_by / first_violation_lines in meta.json from what was seen.
"""
import glob, json, os, re, shutil, subprocess, sys, tempfile
VERIF = os.path.dirname(os.path.abspath(__file__))
args = [a for a in sys.argv[1:] if not a.startswith("--")]
update = "--update" in sys.argv
prefix = args[0] if args else ""
missed = 0
for d in sorted(glob.glob(os.path.join(VERIF, "seeded", prefix + "*"))):
    mp = os.path.join(d, "meta.json")
    meta = json.load(open(mp))
    scratch = tempfile.mkdtemp(prefix="seedall-", dir="/dev/shm" if os.access("/dev/shm", os.W_OK) else None)
    try:
        subprocess.check_call(["rsync", "-a", "--exclude", ".git", "/repo/", scratch + "/"])
        p = subprocess.run(["patch", "-p1", "-s", "--fuzz=3", "-i", os.path.join(d, "patch.diff")], cwd=scratch, capture_output=True, text=True)
        if p.returncode != 0:
            if meta.get("assessment"):
                print("%-9s %-12s %s" % (meta["name"], "-", "patch no longer applies; assessed: " + meta["assessment"][:80]), flush=True)
            else:
                print("%-9s PATCH-FAILED" % meta["name"], flush=True)
                missed += 1
            continue
        env = dict(os.environ, VERIF_REPO_DIR=scratch, VERIF_EVIDENCE_DIR=os.path.join(scratch, "_evidence"))
        detected, lines, rcs = [], {}, {}
        for prop in [meta["property"]] + [q for q in meta.get("also_check", []) if q != meta["property"]]:
            pr = subprocess.run([sys.executable, os.path.join(VERIF, "check.py"), prop, "quick"], env=env, capture_output=True, text=True)
            first = next((l for l in pr.stdout.splitlines() if l.startswith("VIOLATION")), "")
            rcs[prop] = pr.returncode
            lines[prop] = [re.sub(r"replay=\S+", "", first)[:260]] if first else []
            if pr.returncode == 1:
                detected.append(prop)
            elif pr.returncode != 0:
                lines[prop] = [(pr.stdout.strip().splitlines() or ["?"])[-1][:200]]
        m = None
        for prop in detected:
            m = re.search(r"oracle=(\S+) key=(\S+)", lines[prop][0])
            if m:
                break
        note = ""
        if not detected:
            if meta.get("assessment"):
                note = "not reported; assessed: " + meta["assessment"][:90]
            else:
                missed += 1
                note = "NOT DETECTED " + json.dumps(rcs)
        print("%-9s %-12s %s" % (meta["name"], ",".join(detected) or "-", (m.group(1) + "/" + m.group(2)) if m else note), flush=True)
        if update:
            meta["detected_by"] = detected
            meta["first_violation_lines"] = lines
            meta.setdefault("what_was_run", {})["checks"] = {
                q: "python3 check.py %s quick (VERIF_REPO_DIR=<scratch copy with the patch>, VERIF_SCALE=1): exit %d" % (q, rc) for q, rc in rcs.items()}
            json.dump(meta, open(mp, "w"), indent=1)
    finally:
        shutil.rmtree(scratch, ignore_errors=True)
print("not detected: %d" % missed)
sys.exit(1 if missed else 0)
