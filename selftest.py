#!/usr/bin/env python3
"""Self-tests of the machinery.

  python3 selftest.py determinism [N]   run N (default 40) seeds of every non-race profile in 6 processes
                                        (GOMAXPROCS 1, 4, 16, twice each) and compare the canonical log hashes
"""
import json, os, shutil, sys
from concurrent.futures import ThreadPoolExecutor
sys.path.insert(0, os.path.dirname(os.path.abspath(__file__)))
import check


def determinism(n):
    base = "/dev/shm" if os.access("/dev/shm", os.W_OK) else os.path.join(check.VERIF, ".build")
    wd = os.path.join(base, "verif-selftest-%d" % os.getpid())
    os.makedirs(os.path.join(wd, "tmp"), exist_ok=True)
    os.environ["TMPDIR"] = os.path.join(wd, "tmp")
    bad = 0
    try:
        binary = check.build(wd, os.environ.get("VERIF_REPO_DIR", "/repo"), False)
        props = check.list_props(binary, wd)
        jobs = []
        for pid, pd in sorted(props.items()):
            for p in pd["profiles"]:
                if p["race"]:
                    continue
                for rep, procs in enumerate([1, 4, 16, 1, 4, 16]):
                    jobs.append((pid, p["name"], rep, procs))

        def do(j):
            pid, prof, rep, procs = j
            os.environ_copy = None
            job = {"mode": "batch", "property": pid, "profile": prof, "seed": int(os.environ.get("VERIF_SEED", "1")),
                   "start": 0, "count": n, "replay_to": wd, "samples": 0, "max_viol": 10**6, "no_shrink": True, "hashes": True}
            env_procs = str(procs)
            old = os.environ.get("GOMAXPROCS")
            # run_worker copies os.environ; set per call through a private env var understood below
            res = run_with_procs(binary, job, wd, "%s-%s-%d" % (pid, prof, rep), env_procs)
            return j, res
        with ThreadPoolExecutor(max_workers=8) as ex:
            results = list(ex.map(do, jobs))
        table = {}
        for (pid, prof, rep, procs), res in results:
            if not res["out"] or res["rc"] != 0:
                print("selftest: worker failed for %s/%s rep %d (rc=%s): %s" % (pid, prof, rep, res["rc"], (res["stderr"] or "")[-400:]))
                bad += 1
                continue
            table.setdefault((pid, prof), []).append((procs, res["out"].get("hashes") or {}))
        for (pid, prof), runs in sorted(table.items()):
            ref = runs[0][1]
            div = 0
            for procs, h in runs[1:]:
                for k in ref:
                    if h.get(k) != ref[k]:
                        div += 1
            print("%s/%-14s %3d runs x %d processes: %s" % (pid, prof, len(ref), len(runs), "identical" if div == 0 else "%d DIVERGENCES" % div))
            bad += div
    finally:
        shutil.rmtree(wd, ignore_errors=True)
    print("determinism: %s" % ("OK" if bad == 0 else "FAILED (%d)" % bad))
    return 0 if bad == 0 else 2


def run_with_procs(binary, job, wd, tag, procs):
    import subprocess
    jobpath = os.path.join(wd, "job-%s.json" % tag)
    job = dict(job)
    job["out"] = os.path.join(wd, "out-%s.json" % tag)
    job["journal"] = os.path.join(wd, "journal-%s" % tag)
    json.dump(job, open(jobpath, "w"))
    e = check.goenv()
    e["VERIF_JOB"] = jobpath
    e["GOMAXPROCS"] = procs
    p = subprocess.run([binary, "-test.run", "^TestWorker$", "-test.timeout", "2h"], env=e, capture_output=True, text=True)
    res = {"rc": p.returncode, "stderr": p.stderr, "out": None}
    if os.path.exists(job["out"]):
        res["out"] = json.load(open(job["out"]))
    return res


if __name__ == "__main__":
    if len(sys.argv) >= 2 and sys.argv[1] == "determinism":
        sys.exit(determinism(int(sys.argv[2]) if len(sys.argv) > 2 else 40))
    print(__doc__)
    sys.exit(2)
