package sim

import (
	"encoding/json"
	"fmt"
	"os"
	"path/filepath"
	"regexp"
	"runtime"
	"sort"
	"sync/atomic"
	"syscall"
	"testing"
	"time"
)

// Job is what the Python runner hands to one worker process.
type Job struct {
	Mode     string `json:"mode"` // batch | replay | shrink
	Property string `json:"property"`
	Profile  string `json:"profile"`
	Seed     uint64 `json:"seed"`
	Start    uint64 `json:"start"`
	Count    uint64 `json:"count"`
	Out      string `json:"out"`
	Journal  string `json:"journal"`
	Replay   string `json:"replay"`    // replay file (replay/shrink mode)
	ReplayTo string `json:"replay_to"` // where to write violations' replay files
	MaxViol  int    `json:"max_viol"`  // stop after this many violations
	NoShrink bool   `json:"no_shrink"` // leave shrinking to the runner
	ShrinkS  int    `json:"shrink_s"`  // shrink budget (seconds)
	WallS    int    `json:"wall_s"`    // safety net
	Samples  int    `json:"samples"`   // how many samples to keep
	Dump     string `json:"dump"`      // where the watchdog writes stacks
	Logs     bool   `json:"logs"`      // include role logs in replay output
	TraceDir string `json:"trace_dir"` // debugging: write every run's trace there
	Hashes   bool   `json:"hashes"`    // report the canonical log hash of every run (determinism self-test)
}

type ReplayFile struct {
	Property  string   `json:"property"`
	Profile   string   `json:"profile"`
	Seed      uint64   `json:"seed"`
	Index     uint64   `json:"index"`
	SweepPos  int      `json:"sweep_pos"`
	Oracle    string   `json:"oracle"`
	Key       string   `json:"key"`
	Msg       string   `json:"msg"`
	Tape      []uint64 `json:"tape"`
	Minimised bool     `json:"minimised"`
	OrigLen   int      `json:"orig_tape_len"`
	ShrinkRun int      `json:"shrink_runs"`
	LogHash   string   `json:"log_hash"`
	Trace     []string `json:"trace"`
	Note      string   `json:"note,omitempty"`
	FromSeed  bool     `json:"from_seed,omitempty"` // regenerate the tape from the seed (crash-class violations)
}

type ViolOut struct {
	Oracle string `json:"oracle"`
	Key    string `json:"key"`
	Msg    string `json:"msg"`
	Index  uint64 `json:"index"`
	Seed   uint64 `json:"seed"`
	Replay string `json:"replay"`
}

type Out struct {
	Property      string            `json:"property"`
	Profile       string            `json:"profile"`
	Runs          int               `json:"runs"`
	Steps         int64             `json:"steps"`
	SimNanos      int64             `json:"sim_ns"`
	Faults        map[string]int    `json:"faults"`
	FaultsConf    map[string]int    `json:"faults_conf"`
	Hooks         map[string]int    `json:"hooks"`
	Probes        map[string]int    `json:"probes"`
	Cells         []string          `json:"cells"`
	Sigs          []string          `json:"sigs"`
	SigsTruncated bool              `json:"sigs_truncated,omitempty"`
	NonTrivial    int               `json:"nontrivial_runs"`
	Samples       []any             `json:"samples"`
	Violations    []ViolOut         `json:"violations"`
	Leaked        int               `json:"leaked"`
	HarnessErr    string            `json:"harness_err,omitempty"`
	WallS         float64           `json:"wall_s"`
	WallCapHit    bool              `json:"wall_cap_hit"`
	Hashes        map[string]string `json:"hashes,omitempty"`
	// replay mode
	Reproduced bool                `json:"reproduced"`
	LogHash    string              `json:"log_hash,omitempty"`
	Trace      []string            `json:"trace,omitempty"`
	RoleLogs   map[string][]string `json:"role_logs,omitempty"`
}

var runInProgress atomic.Bool
var shrinking atomic.Bool

// a scheduler step takes microseconds to milliseconds (a burst step: up to a few seconds). The bubble cannot come
// to rest when a goroutine spins, or waits for a sync.Mutex that nobody will release. A spin is recognised by
// the processor time this process has burnt since the last step, a blocked state by elapsed time; both limits
// are far from anything a legitimate step needs even on an overloaded machine (processor time does not pass
// while the process is starved, so load alone cannot trip the first limit).
const (
	watchdogCPULimit  = 30 * time.Second
	watchdogWallLimit = 120 * time.Second
)

const watchdogBlockedAfter = 6 * time.Second

var goroutineHeader = regexp.MustCompile(`(?m)^goroutine \d+ \[([^\],]+)`)

// idleDump reports whether no goroutine other than the caller is running or runnable.
func idleDump() bool {
	buf := make([]byte, 1<<22)
	n := runtime.Stack(buf, true)
	busy := 0
	for _, m := range goroutineHeader.FindAllSubmatch(buf[:n], -1) {
		if st := string(m[1]); st == "running" || st == "runnable" || st == "syscall" {
			busy++
		}
	}
	return busy <= 1 // the caller itself is "running"
}

func processCPU() time.Duration {
	var ru syscall.Rusage
	if err := syscall.Getrusage(syscall.RUSAGE_SELF, &ru); err != nil {
		return 0
	}
	return time.Duration(ru.Utime.Nano() + ru.Stime.Nano())
}

func startWatchdog(dump string) {
	go func() {
		last := stepCounter.Load()
		lastChange := time.Now()
		cpuAtChange := processCPU()
		idleSeen := 0
		for {
			time.Sleep(500 * time.Millisecond)
			cur := stepCounter.Load()
			if cur != last || !(runInProgress.Load() || shrinking.Load()) {
				last = cur
				lastChange = time.Now()
				cpuAtChange = processCPU()
				idleSeen = 0
				continue
			}
			blocked := false
			if time.Since(lastChange) > watchdogBlockedAfter {
				// nothing runnable besides this goroutine, twice in a row: nobody is starved, everybody waits (for a
				// sync.Mutex that will not be released: the one wait a bubble does not count as rest)
				if idleDump() {
					idleSeen++
				} else {
					idleSeen = 0
				}
				blocked = idleSeen >= 2
			}
			if blocked || processCPU()-cpuAtChange > watchdogCPULimit || time.Since(lastChange) > watchdogWallLimit {
				if shrinking.Load() {
					// a shrink candidate hangs (e.g. on a leaked lock): the violation it is shrinking has
					// already been written out, give up minimising
					fmt.Fprintf(os.Stderr, "WATCHDOG: hang while shrinking\n")
					os.Exit(4)
				}
				buf := make([]byte, 1<<22)
				n := runtime.Stack(buf, true)
				if dump != "" {
					os.WriteFile(dump, buf[:n], 0o644)
				}
				fmt.Fprintf(os.Stderr, "WATCHDOG: no scheduler step for %v (processor time burnt meanwhile: %v)\n%s\n", time.Since(lastChange).Round(time.Second), (processCPU() - cpuAtChange).Round(time.Second), buf[:n])
				os.Exit(3)
			}
		}
	}()
}

func writeJSON(path string, v any) {
	b, err := json.MarshalIndent(v, "", " ")
	if err != nil {
		panic(err)
	}
	if err := os.WriteFile(path, b, 0o644); err != nil {
		panic(err)
	}
}

func TestWorker(t *testing.T) {
	jobPath := os.Getenv("VERIF_JOB")
	if jobPath == "" {
		t.Skip("no VERIF_JOB")
	}
	b, err := os.ReadFile(jobPath)
	if err != nil {
		t.Fatal(err)
	}
	var job Job
	if err := json.Unmarshal(b, &job); err != nil {
		t.Fatal(err)
	}
	startWatchdog(job.Dump)
	switch job.Mode {
	case "batch":
		workerBatch(t, &job)
	case "replay":
		workerReplay(t, &job)
	case "shrink":
		workerShrink(t, &job)
	default:
		t.Fatalf("bad mode %q", job.Mode)
	}
}

func lookup(t *testing.T, prop, profile string) Scenario {
	sc, _ := lookup2(t, prop, profile)
	return sc
}

func lookup2(t *testing.T, prop, profile string) (Scenario, int) {
	pd, ok := Properties[prop]
	if !ok {
		t.Fatalf("unknown property %s", prop)
	}
	for _, p := range pd.Profiles {
		if p.Name == profile {
			return p.Sc, p.Sweep
		}
	}
	t.Fatalf("unknown profile %s/%s", prop, profile)
	return nil, 0
}

func workerBatch(t *testing.T, job *Job) {
	sc, sweep := lookup2(t, job.Property, job.Profile)
	out := &Out{
		Property: job.Property, Profile: job.Profile,
		Faults: map[string]int{}, FaultsConf: map[string]int{}, Hooks: map[string]int{}, Probes: map[string]int{},
	}
	cells := map[string]struct{}{}
	sigs := map[uint64]struct{}{}
	t0 := time.Now()
	seenViol := map[string]int{}
	if job.MaxViol == 0 {
		job.MaxViol = 8
	}
	if job.ShrinkS == 0 {
		job.ShrinkS = 60
	}
	for i := job.Start; i < job.Start+job.Count; i++ {
		if job.WallS > 0 && time.Since(t0) > time.Duration(job.WallS)*time.Second {
			out.WallCapHit = true
			break
		}
		seed := Mix(job.Seed, job.Property+"/"+job.Profile, i)
		sweepPos := 0
		if sweep > 0 {
			seed = Mix(job.Seed, job.Property+"/"+job.Profile, i/uint64(sweep))
			sweepPos = int(i % uint64(sweep))
		}
		if job.Journal != "" {
			os.WriteFile(job.Journal, []byte(fmt.Sprintf("%d %d\n", i, seed)), 0o644)
		}
		runInProgress.Store(true)
		res := ExecuteSweep(t, job.Property, job.Profile, seed, sweepPos, NewTape(seed), sc)
		runInProgress.Store(false)
		if res.HarnessEr != "" {
			out.HarnessErr = fmt.Sprintf("index %d seed %d: %s", i, seed, res.HarnessEr)
			break
		}
		out.Runs++
		if job.TraceDir != "" {
			var sb []byte
			for _, l := range res.Trace {
				sb = append(sb, l...)
				sb = append(sb, '\n')
			}
			var roles []string
			for role := range res.RoleLogs {
				roles = append(roles, role)
			}
			sort.Strings(roles)
			for _, role := range roles {
				for _, l := range res.RoleLogs[role] {
					sb = append(sb, ("[" + role + "] " + l + "\n")...)
				}
			}
			os.WriteFile(filepath.Join(job.TraceDir, fmt.Sprintf("%d.txt", i)), sb, 0o644)
		}
		if job.Hashes {
			if out.Hashes == nil {
				out.Hashes = map[string]string{}
			}
			h := res.LogHash
			if res.Viol != nil {
				h += "!" + res.Viol.Oracle
			}
			out.Hashes[fmt.Sprint(i)] = h
		}
		out.Steps += int64(res.Stats.Steps)
		out.SimNanos += res.Stats.SimNanos
		for k, v := range res.Stats.Faults {
			out.Faults[k] += v
		}
		for k, v := range res.Stats.FaultsConf {
			out.FaultsConf[k] += v
		}
		for k, v := range res.Stats.Hooks {
			out.Hooks[k] += v
		}
		for k, v := range res.Stats.Probes {
			out.Probes[k] += v
		}
		for k := range res.Stats.Cells {
			cells[k] = struct{}{}
		}
		if res.Stats.NonTrivial {
			out.NonTrivial++
			sigs[res.Stats.Sig] = struct{}{}
		}
		if res.Leaked {
			out.Leaked++
		}
		if len(out.Samples) < job.Samples && res.Stats.NonTrivial {
			s := res.Stats.Sample
			if s == nil {
				tr := res.Trace
				if len(tr) > 40 {
					tr = tr[:40]
				}
				s = map[string]any{"seed": seed, "trace_head": tr}
			}
			out.Samples = append(out.Samples, s)
		}
		if res.Viol != nil {
			vk := res.Viol.Oracle + "|" + res.Viol.Key
			seenViol[vk]++
			rf := &ReplayFile{
				Property: job.Property, Profile: job.Profile, Seed: seed, Index: i, SweepPos: sweepPos,
				Oracle: res.Viol.Oracle, Key: res.Viol.Key, Msg: res.Viol.Msg,
				Tape: res.Tape, OrigLen: len(res.Tape), LogHash: res.LogHash, Trace: res.Trace,
			}
			path := filepath.Join(job.ReplayTo, fmt.Sprintf("%s-%s-%d.json", job.Property, job.Profile, i))
			if seenViol[vk] <= 2 { // keep at most two replay files per (oracle,key) per worker
				writeJSON(path, rf)
				if !job.NoShrink && seenViol[vk] == 1 {
					// make what is known so far durable: a shrink candidate may hang the process
					out.Violations = append(out.Violations, ViolOut{Oracle: rf.Oracle, Key: rf.Key, Msg: rf.Msg, Index: i, Seed: seed, Replay: path})
					out.WallS = time.Since(t0).Seconds()
					writeJSON(job.Out, out)
					out.Violations = out.Violations[:len(out.Violations)-1]
					shrinking.Store(true)
					min, n := Shrink(t, job.Property, job.Profile, seed, sweepPos, res.Tape, sc, res.Viol.Oracle,
						400, time.Duration(job.ShrinkS)*time.Second)
					r2 := ExecuteSweep(t, job.Property, job.Profile, seed, sweepPos, ReplayTape(min), sc)
					shrinking.Store(false)
					if r2.Viol != nil && r2.Viol.Oracle == res.Viol.Oracle {
						rf.Tape, rf.Minimised, rf.ShrinkRun = r2.Tape, true, n
						rf.Key, rf.Msg, rf.LogHash, rf.Trace = r2.Viol.Key, r2.Viol.Msg, r2.LogHash, r2.Trace
						writeJSON(path, rf)
					}
				}
				out.Violations = append(out.Violations, ViolOut{
					Oracle: rf.Oracle, Key: rf.Key, Msg: rf.Msg, Index: i, Seed: seed, Replay: path,
				})
			} else {
				out.Violations = append(out.Violations, ViolOut{
					Oracle: res.Viol.Oracle, Key: res.Viol.Key, Msg: res.Viol.Msg, Index: i, Seed: seed,
				})
			}
			if len(out.Violations) >= job.MaxViol {
				break
			}
		}
	}
	for k := range cells {
		out.Cells = append(out.Cells, k)
	}
	sort.Strings(out.Cells)
	for k := range sigs {
		out.Sigs = append(out.Sigs, fmt.Sprintf("%016x", k))
	}
	sort.Strings(out.Sigs)
	if len(out.Sigs) > 150000 {
		// very large batches: report a lower bound of the distinct count
		out.Sigs = out.Sigs[:150000]
		out.SigsTruncated = true
	}
	out.WallS = time.Since(t0).Seconds()
	writeJSON(job.Out, out)
}

func readReplay(t *testing.T, path string) *ReplayFile {
	b, err := os.ReadFile(path)
	if err != nil {
		t.Fatal(err)
	}
	var rf ReplayFile
	if err := json.Unmarshal(b, &rf); err != nil {
		t.Fatal(err)
	}
	return &rf
}

func workerReplay(t *testing.T, job *Job) {
	rf := readReplay(t, job.Replay)
	sc := lookup(t, rf.Property, rf.Profile)
	if job.Journal != "" {
		os.WriteFile(job.Journal, []byte(fmt.Sprintf("%d %d\n", rf.Index, rf.Seed)), 0o644)
	}
	runInProgress.Store(true)
	tape := ReplayTape(rf.Tape)
	if rf.FromSeed {
		tape = NewTape(rf.Seed)
	}
	res := ExecuteSweep(t, rf.Property, rf.Profile, rf.Seed, rf.SweepPos, tape, sc)
	runInProgress.Store(false)
	out := &Out{Property: rf.Property, Profile: rf.Profile, Runs: 1, HarnessErr: res.HarnessEr}
	out.LogHash = res.LogHash
	out.Trace = res.Trace
	if job.Logs {
		out.RoleLogs = res.RoleLogs
	}
	if res.Viol != nil {
		out.Violations = []ViolOut{{Oracle: res.Viol.Oracle, Key: res.Viol.Key, Msg: res.Viol.Msg, Seed: rf.Seed, Index: rf.Index, Replay: job.Replay}}
		out.Reproduced = res.Viol.Oracle == rf.Oracle && (rf.LogHash == "" || rf.LogHash == res.LogHash)
	}
	writeJSON(job.Out, out)
}

func workerShrink(t *testing.T, job *Job) {
	rf := readReplay(t, job.Replay)
	sc := lookup(t, rf.Property, rf.Profile)
	if job.ShrinkS == 0 {
		job.ShrinkS = 60
	}
	runInProgress.Store(true)
	min, n := Shrink(t, rf.Property, rf.Profile, rf.Seed, rf.SweepPos, rf.Tape, sc, rf.Oracle, 400, time.Duration(job.ShrinkS)*time.Second)
	r2 := ExecuteSweep(t, rf.Property, rf.Profile, rf.Seed, rf.SweepPos, ReplayTape(min), sc)
	runInProgress.Store(false)
	out := &Out{Property: rf.Property, Profile: rf.Profile, Runs: n}
	if r2.Viol != nil && r2.Viol.Oracle == rf.Oracle {
		rf.Tape, rf.Minimised, rf.ShrinkRun = r2.Tape, true, n
		rf.Key, rf.Msg, rf.LogHash, rf.Trace = r2.Viol.Key, r2.Viol.Msg, r2.LogHash, r2.Trace
		writeJSON(job.Replay, rf)
		out.Reproduced = true
	}
	writeJSON(job.Out, out)
}
