package sim

import (
	"fmt"
	"io"

	"github.com/bluenviron/gohlslib/v2/pkg/codecs"
	"github.com/bluenviron/mediacommon/v2/pkg/codecs/mpeg4audio"
	"net/http"
	"net/url"
	"os"
	"regexp"
	"sort"
	"strings"
	"sync"
	"time"

	"github.com/bluenviron/gohlslib/v2"
)

// W-MUX: the real Muxer driven by one writer task and any number of requester tasks,
// observed only through Muxer.Handle.

// ---------------------------------------------------------------------------
// HTTP plumbing (no sockets: Handle is called directly)

type httpResp struct {
	mu      sync.Mutex
	path    string
	status  int // 0 = handler wrote nothing (a real server would send an empty 200)
	hdr     http.Header
	body    []byte
	done    bool
	invoke  int // writer progress counter at invoke
	ret     int // writer progress counter when first seen complete
	retStep int
	task    *Task
}

type respWriter struct{ r *httpResp }

func (w *respWriter) Header() http.Header { return w.r.hdr }
func (w *respWriter) WriteHeader(code int) {
	if w.r.status == 0 {
		w.r.status = code
	}
}
func (w *respWriter) Write(p []byte) (int, error) {
	if w.r.status == 0 {
		w.r.status = 200
	}
	w.r.body = append(w.r.body, p...)
	return len(p), nil
}

// ReadFrom avoids io.Copy's 32 KiB scratch buffer per response.
func (w *respWriter) ReadFrom(src io.Reader) (int64, error) {
	if w.r.status == 0 {
		w.r.status = 200
	}
	var total int64
	for {
		if cap(w.r.body)-len(w.r.body) < 512 {
			nb := make([]byte, len(w.r.body), 2*cap(w.r.body)+2048)
			copy(nb, w.r.body)
			w.r.body = nb
		}
		n, err := src.Read(w.r.body[len(w.r.body):cap(w.r.body)])
		w.r.body = w.r.body[:len(w.r.body)+n]
		total += int64(n)
		if err == io.EOF {
			return total, nil
		}
		if err != nil {
			return total, err
		}
	}
}

func (r *httpResp) isDone() bool {
	r.mu.Lock()
	defer r.mu.Unlock()
	return r.done
}

// effective status: what a client behind net/http would see
func (r *httpResp) effStatus() int {
	if r.status == 0 {
		return 200
	}
	return r.status
}

func (r *httpResp) ctype() string { return r.hdr.Get("Content-Type") }

// ---------------------------------------------------------------------------
// configuration and write script

type trackSpec struct {
	id      int
	kind    string // h264 h265 vp9 av1 aac opus
	video   bool
	clock   int
	t       *gohlslib.Track
	leading bool
	units   []*unit // every unit handed to Write*, in order
	initial *videoParams
	name    string
	lang    string
	isDef   bool
	aacRate int
	reorder bool // H264 with B-frames: presentation order differs from decode (= writing) order
}

type writeCall struct {
	track *trackSpec
	pts   int64
	ntp   time.Time
	units []*unit
	idx   int
	err   error
	done  bool
}

type muxCfg struct {
	variant gohlslib.MuxerVariant
	// Low-Latency selected by leaving Muxer.Variant at its zero value
	defaultVariant bool
	vname          string
	tracks         []*trackSpec
	segCount       int
	segMin         time.Duration
	partMin        time.Duration
	segMaxSize     uint64
	disk           bool
	dir            string
}

func (c *muxCfg) leadingTrack() *trackSpec {
	for _, t := range c.tracks {
		if t.leading {
			return t
		}
	}
	return nil
}

func (c *muxCfg) String() string {
	var ts []string
	for _, t := range c.tracks {
		s := t.kind
		if t.leading {
			s += "*"
		}
		ts = append(ts, s)
	}
	return fmt.Sprintf("%s tracks=[%s] segCount=%d segMin=%v partMin=%v maxSize=%d disk=%v",
		c.vname, strings.Join(ts, ","), c.segCount, c.segMin, c.partMin, c.segMaxSize, c.disk)
}

var prefixRe = regexp.MustCompile(`\b[0-9a-f]{12}_`)

// muxGen holds generator biases set by the profile of the property under check.
type muxGen struct {
	variants       []string // subset of mpegts fmp4 ll
	minCalls       int
	maxCalls       int
	paramChanges   bool // generate codec parameter changes
	constLeading   bool // leading track has a constant sample duration (C19)
	fastRotation   bool // SegmentMinDuration tiny: a rotation almost every key frame
	allowZeroDur   bool // frame durations of 0 allowed
	negativeStart  bool
	bigPayloads    bool // payload sizes straddling SegmentMaxSize (C18)
	singleAUAudio  bool
	noMidGOP       bool
	keyEvery       int // if >0 force regular GOP
	videoOnly      bool
	forceVideo     bool
	reorder        bool     // some H264 tracks carry B-frames
	h26xOnly       bool     // video is H264 or H265 (codecs whose parameter sets travel in-band as NAL units)
	videoKinds     []string // if set: the video codec is one of these
	noPPS          bool     // H264 only: the Track is configured without parameter sets and the stream never carries a PPS
	latePPS        bool     // with noPPS: from some later key frame on the stream does carry its PPS
	paramChangeDen int      // a parameter change at a key frame with probability 1/paramChangeDen (default 6)
}

var aacRates = []int{8000, 11025, 12000, 16000, 22050, 24000, 32000, 44100, 48000, 88200, 96000}

func genMuxCfg(r *Run, g *muxGen) *muxCfg {
	T := r.T
	c := &muxCfg{}
	c.vname = g.variants[T.Intn(len(g.variants))]
	switch c.vname {
	case "mpegts":
		c.variant = gohlslib.MuxerVariantMPEGTS
	case "fmp4":
		c.variant = gohlslib.MuxerVariantFMP4
	default:
		c.variant = gohlslib.MuxerVariantLowLatency
		c.defaultVariant = T.Chance(1, 4)
	}
	// tracks
	hasVideo := g.forceVideo || T.Chance(3, 4)
	nAudio := 0
	if c.vname == "mpegts" {
		if hasVideo {
			nAudio = T.Intn(2)
		} else {
			nAudio = 1
		}
	} else {
		nAudio = Pick(T, 0, 1, 1, 2, 3)
		if !hasVideo && nAudio == 0 {
			nAudio = 1
		}
	}
	if g.videoOnly && hasVideo {
		nAudio = 0
	}
	var specs []*trackSpec
	if hasVideo {
		kind := "h264"
		if c.vname != "mpegts" {
			kind = Pick(T, "h264", "h264", "h265", "vp9", "av1")
			if g.h26xOnly {
				kind = Pick(T, "h264", "h265")
			}
			if len(g.videoKinds) > 0 {
				kind = g.videoKinds[T.Intn(len(g.videoKinds))]
			}
		}
		reorder := g.reorder && kind == "h264" && T.Chance(1, 3)
		if g.noPPS {
			kind = "h264"
		}
		p := videoParamVariantR(kind, T.Intn(16), reorder)
		ts := &trackSpec{kind: kind, video: true, clock: 90000, initial: p, reorder: reorder}
		ts.t = newVideoTrack(kind, p)
		if g.noPPS {
			p.pps = nil
			ts.t.Codec = &codecs.H264{}
		}
		// attributes that only mean something for audio renditions may be set on the video track as well
		if T.Chance(1, 5) {
			ts.t.IsDefault = true
		}
		if T.Chance(1, 8) {
			ts.t.Name = "main picture"
		}
		if T.Chance(1, 8) {
			ts.t.Language = "en"
		}
		specs = append(specs, ts)
	}
	anyDefault := false
	for i := 0; i < nAudio; i++ {
		var ts *trackSpec
		if c.vname == "mpegts" || T.Chance(2, 3) {
			rate := aacRates[T.Intn(len(aacRates))]
			ts = &trackSpec{kind: "aac", clock: rate, aacRate: rate}
			ts.t = newAACTrack(rate, Pick(T, 1, 2))
			if c.vname != "mpegts" && rate <= 24000 && T.Chance(1, 4) {
				// HE-AAC with explicit SBR signalling: the access units still span 1024 samples at the core rate
				cc := ts.t.Codec.(*codecs.MPEG4Audio)
				cc.Config.ExtensionType = mpeg4audio.ObjectTypeSBR
				cc.Config.ExtensionSampleRate = 2 * rate
			}
		} else {
			ts = &trackSpec{kind: "opus", clock: 48000}
			ts.t = newOpusTrack(Pick(T, 1, 2))
		}
		if T.Chance(1, 2) {
			ts.name = Pick(T, "English", "Deutsch", "commentary", "a b")
			ts.t.Name = ts.name
		}
		if T.Chance(1, 2) {
			ts.lang = Pick(T, "en", "de", "it", "fr", "en-US", "pt-BR", "zh-Hant")
			ts.t.Language = ts.lang
		}
		if !anyDefault && c.vname != "mpegts" && T.Chance(1, 4) {
			ts.isDef = true
			ts.t.IsDefault = true
			anyDefault = true
		}
		specs = append(specs, ts)
	}
	// order: video first / last / in the middle
	if hasVideo && len(specs) > 1 && T.Chance(1, 3) {
		pos := T.Range(1, len(specs)-1)
		v := specs[0]
		copy(specs[0:], specs[1:pos+1])
		specs[pos] = v
	}
	for i, s := range specs {
		s.id = i
		s.leading = s.video || (!hasVideo && i == 0)
	}
	c.tracks = specs

	minCount := 3
	if c.vname == "ll" {
		minCount = 7
	}
	c.segCount = minCount + Pick(T, 0, 0, 1, 2, 5)
	if g.fastRotation {
		c.segMin = Pick(T, time.Millisecond, 10*time.Millisecond, 100*time.Millisecond)
	} else {
		c.segMin = Pick(T, time.Millisecond, 100*time.Millisecond, 333333333*time.Nanosecond, 500*time.Millisecond,
			time.Second, time.Second, 2*time.Second, 4*time.Second)
	}
	c.partMin = Pick(T, 50*time.Millisecond, 100*time.Millisecond, 200*time.Millisecond, 200*time.Millisecond,
		333*time.Millisecond, 500*time.Millisecond, time.Second, 2*time.Second)
	c.segMaxSize = 50 * 1024 * 1024
	if g.constLeading {
		// PartMinDuration 50 ms .. 2 s on the 5 ms grid and off it
		c.partMin = time.Duration(T.Range(10, 400)) * 5 * time.Millisecond
		if T.Chance(1, 3) {
			c.partMin += time.Duration(T.Range(1, 4)) * time.Millisecond
		}
	}
	if g.bigPayloads {
		c.segMaxSize = uint64(Pick(T, 300, 1000, 4000, 20000, 100000))
	}
	c.disk = T.Chance(1, 3)
	return c
}

// genScript generates the whole write script (calls in write order) from the tape.
func genScript(r *Run, c *muxCfg, g *muxGen) []*writeCall {
	T := r.T
	nCalls := T.Range(g.minCalls, g.maxCalls)
	// common start time (seconds, may be negative down to -10 s)
	startSec := 0.0
	switch T.Intn(5) {
	case 1:
		startSec = float64(T.Range(1, 100000))
	case 2:
		if g.negativeStart {
			startSec = -float64(T.Range(0, 10000)) / 1000.0
		}
	case 3:
		if g.negativeStart {
			startSec = -10.0 // the statement's lower bound
		}
	}
	for _, ts := range c.tracks {
		if ts.reorder && startSec < 0 {
			startSec = 0 // decode times of B-frame streams are the library's own; keep them clear of the fMP4 offset rule
		}
	}
	ntpBase := time.Date(2020+T.Intn(10), time.Month(1+T.Intn(12)), 1+T.Intn(28), T.Intn(24), T.Intn(60), T.Intn(60),
		T.Intn(1000)*1000000, time.UTC)
	ntpMode := T.Intn(4) // 0 exact, 1 jitter, 2 jumps, 3 drift
	// wall-clock times need not be expressed in UTC
	var zone *time.Location
	if T.Chance(1, 4) {
		zone = time.FixedZone("", Pick(T, 3600, 7200, -12600, 19800, -36000, 45900))
	}

	type stream struct {
		ts    *trackSpec
		calls []*writeCall
	}
	var streams []*stream
	// the leading track gets its share of the call budget; the other tracks are generated until they
	// span the same media time, so that no track ends long before the others
	order := append([]*trackSpec(nil), c.tracks...)
	for i, ts := range order {
		if ts.leading {
			order[0], order[i] = order[i], order[0]
		}
	}
	spanEnd := 0.0
	byTrack := map[*trackSpec]*stream{}
	for _, ts := range order {
		st := &stream{ts: ts}
		byTrack[ts] = st
		n := nCalls / len(c.tracks)
		if ts.leading {
			n = nCalls - n*(len(c.tracks)-1)
		}
		if n < 3 {
			n = 3
		}
		off := 0.0
		if !ts.leading {
			off = float64(T.Range(-500, 500)) / 1000.0
		}
		t0 := startSec + off
		if t0 < -10.0 {
			t0 = -10.0 // negative start timestamps down to -10 s
		}
		until := 0.0
		if !ts.leading {
			n, until = 20000, spanEnd
		}
		switch {
		case ts.video:
			genVideoCalls(T, g, c, ts, st.calls[:0], n, t0, &st.calls)
		case ts.kind == "aac":
			genAACCalls(T, g, c, ts, n, t0, until, &st.calls)
		default:
			genOpusCalls(T, g, c, ts, n, t0, until, &st.calls)
		}
		if ts.leading && len(st.calls) > 0 {
			last := st.calls[len(st.calls)-1]
			spanEnd = float64(last.pts) / float64(ts.clock)
		}
	}
	for _, ts := range c.tracks {
		streams = append(streams, byTrack[ts])
	}
	// interleave
	mode := T.Intn(4) // 0 time-ordered, 1 audio ahead, 2 video ahead, 3 random
	skew := float64(T.Range(100, 1500)) / 1000.0
	var out []*writeCall
	idxs := make([]int, len(streams))
	timeOf := func(st *stream, i int) float64 {
		cl := st.calls[i]
		t := float64(cl.pts) / float64(st.ts.clock)
		switch mode {
		case 1:
			if !st.ts.video {
				t -= skew
			}
		case 2:
			if st.ts.video {
				t -= skew
			}
		}
		return t
	}
	for {
		var cand []int
		for i, st := range streams {
			if idxs[i] < len(st.calls) {
				cand = append(cand, i)
			}
		}
		if len(cand) == 0 {
			break
		}
		pick := cand[0]
		if mode == 3 {
			pick = cand[T.Intn(len(cand))]
		} else {
			best := timeOf(streams[pick], idxs[pick])
			for _, i := range cand[1:] {
				if t := timeOf(streams[i], idxs[i]); t < best {
					best, pick = t, i
				}
			}
		}
		cl := streams[pick].calls[idxs[pick]]
		idxs[pick]++
		cl.idx = len(out)
		for _, u := range cl.units {
			u.call = cl.idx
		}
		out = append(out, cl)
	}
	// NTP
	jump := time.Duration(0)
	for _, cl := range out {
		sec := float64(cl.pts) / float64(cl.track.clock)
		d := time.Duration(sec * float64(time.Second))
		switch ntpMode {
		case 1:
			d += time.Duration(T.Range(-20, 20)) * time.Millisecond
		case 2:
			if T.Chance(1, 40) {
				jump += time.Duration(T.Range(-5000, 5000)) * time.Millisecond
			}
			d += jump
		case 3:
			d += d / 1000
		}
		cl.ntp = ntpBase.Add(d)
		if zone != nil {
			cl.ntp = cl.ntp.In(zone) // the same instant, expressed in another time zone
		}
		// per-unit NTP as the statement implies for multi-unit audio writes
		for _, u := range cl.units {
			u.ntpUnix = cl.ntp.UnixNano() + (u.dts-cl.units[0].dts)*int64(time.Second)/int64(cl.track.clock)
		}
	}
	return out
}

func genVideoCalls(T *Tape, g *muxGen, c *muxCfg, ts *trackSpec, _ []*writeCall, n int, t0 float64, out *[]*writeCall) {
	// frame duration mode
	durs := []int64{1500, 3000, 3003, 3600, 3750, 6000, 9000, 18000, 90000}
	base := durs[T.Intn(len(durs))]
	dmode := T.Intn(3) // 0 constant, 1 jitter, 2 arbitrary
	if g.constLeading {
		dmode = 0
		// all common frame rates 1..120 fps at 90 kHz, incl. the 1001-based 29.97
		fpsList := []int64{1, 2, 5, 10, 12, 15, 20, 24, 25, 30, 48, 50, 60, 90, 100, 120}
		if T.Chance(1, 6) {
			base = 3003
		} else {
			base = 90000 / fpsList[T.Intn(len(fpsList))]
		}
	}
	if ts.reorder {
		dmode = 0
	}
	// B-frame streams: pictures are written in decode order; anchors (I, P) are followed by the nB pictures that are
	// shown before them
	nB := Pick(T, 1, 2, 2, 3)
	disp, maxDisp, idrDisp, anchorPrev, anchorDisp, bLeft, frameNum := 0, -1, 0, 0, 0, 0, 0
	// key frame pattern
	gop := Pick(T, 1, 2, 3, 5, 10, 15, 30, 60)
	if g.keyEvery > 0 {
		gop = g.keyEvery
	}
	irregular := T.Chance(1, 3) && g.keyEvery == 0
	midGOP := 0
	if !g.noMidGOP && T.Chance(1, 3) {
		midGOP = T.Range(1, 6)
	}
	// bias key-frame spacing to sit on / around SegmentMinDuration
	if T.Chance(1, 3) && dmode == 0 && g.keyEvery == 0 {
		k := int64(c.segMin) * 90000 / int64(time.Second) / base
		if k >= 1 && k <= 200 {
			gop = int(k) + Pick(T, -1, 0, 0, 1)
			if gop < 1 {
				gop = 1
			}
		}
	}
	cur := ts.initial
	variant := 0
	dts := int64(t0 * 90000)
	sinceKey := 0
	firstKeyDone := false
	for i := 0; i < n; i++ {
		key := false
		if i >= midGOP {
			if !firstKeyDone {
				key = true
			} else if irregular {
				key = T.Chance(1, gop)
			} else {
				key = sinceKey >= gop
			}
		}
		p := cur
		inband := false
		changed := false
		if key {
			if !firstKeyDone {
				inband = true
			} else {
				inband = T.Chance(1, 2)
			}
			den := g.paramChangeDen
			if den == 0 {
				den = 6
			}
			// (the very first key frame may also carry parameter sets that differ from the ones the Track was configured with)
			if g.paramChanges && (firstKeyDone || T.Chance(1, 2)) && T.Chance(1, den) {
				variant++
				p = videoParamVariantR(ts.kind, T.Intn(4)+4*variant, ts.reorder)
				if T.Chance(1, 3) {
					p = changeOneField(ts.kind, cur, T.Intn(12))
				}
				if g.noPPS && !(g.latePPS && i > n/3) {
					p.pps = nil
				}
				if !p.equal(cur) {
					changed = true
					inband = true
				} else {
					p = cur
				}
			}
		} else if g.paramChanges && firstKeyDone && (ts.kind == "h264" || ts.kind == "h265") && T.Chance(1, 40) {
			// parameter sets arriving in a non-random-access unit: pending until the next key frame
			variant++
			p = videoParamVariantR(ts.kind, T.Intn(4)+4*variant, ts.reorder)
			if T.Chance(1, 3) {
				p = changeOneField(ts.kind, cur, T.Intn(12))
			}
			if !p.equal(cur) {
				changed = true
				inband = true
			} else {
				p = cur
			}
		}
		if ts.kind == "vp9" || ts.kind == "av1" {
			inband = key // parameters travel in every key frame
		}
		size := Pick(T, 10, 16, 40, 100, 300)
		if g.bigPayloads {
			size = bigSize(T, c)
		}
		u := &unit{track: ts.id, idx: len(ts.units), dts: dts, pts: dts, ra: key, params: p, carries: inband}
		var sp slicePos
		if ts.reorder {
			switch {
			case key:
				disp = maxDisp + 1
				idrDisp, anchorDisp, bLeft, frameNum = disp, disp, 0, 0
			case !firstKeyDone:
				disp = maxDisp + 1 // before the first key frame: dropped by the muxer anyway
			case bLeft > 0:
				disp = anchorPrev + (nB - bLeft + 1)
				bLeft--
				sp.b = true
			default:
				anchorPrev = anchorDisp
				anchorDisp += nB + 1
				disp = anchorDisp
				bLeft = nB
				frameNum++
			}
			if disp > maxDisp {
				maxDisp = disp
			}
			sp.poc, sp.frameNum = 2*(disp-idrDisp), frameNum
			u.pts = int64(t0*90000) + int64(disp)*base
			u.dts = u.pts // provisional, see unit.dtsKnown
			if !sp.b && !key && firstKeyDone {
				u.dts = u.pts - int64(nB)*base
			}
		}
		if inband && firstKeyDone && (ts.kind == "h264" || ts.kind == "h265") && T.Chance(1, 5) {
			// the parameter sets travel in a Write call of their own (no slice in it) right before the picture
			// (not before the very first key frame: the library's DTS extractor needs them inside that unit)
			u.sep = paramNALUs(ts.kind, p)
			u.data, u.payload = buildVideoUnitAt(ts.kind, ts.id, u.idx, key, p, false, size, sp)
		} else {
			u.data, u.payload = buildVideoUnitAt(ts.kind, ts.id, u.idx, key, p, inband, size, sp)
		}
		ts.units = append(ts.units, u)
		*out = append(*out, &writeCall{track: ts, pts: u.pts, units: []*unit{u}})
		if changed || inband {
			cur = p
		}
		if key {
			sinceKey = 1
			firstKeyDone = true
		} else {
			sinceKey++
		}
		var d int64
		switch dmode {
		case 0:
			d = base
		case 1:
			d = base + int64(T.Range(-int(base/3), int(base/3)))
		default:
			d = int64(T.Range(0, 20000))
			if g.allowZeroDur && T.Chance(1, 12) {
				d = 0 // two consecutive units with the same DTS (non-decreasing, not strictly increasing)
			}
			if !g.allowZeroDur && d == 0 {
				d = 1
			}
		}
		if d <= 0 && !g.allowZeroDur {
			d = 1
		}
		if d < 0 {
			d = 0
		}
		dts += d
	}
}

// bigSize draws payload sizes that straddle SegmentMaxSize once a few units share a segment.
func bigSize(T *Tape, c *muxCfg) int {
	m := int(c.segMaxSize)
	switch T.Intn(40) {
	case 0:
		return m / 2
	case 1:
		return m / 3
	case 2:
		return m/4 + T.Intn(16)
	case 3:
		return max(10, m-T.Range(0, 40))
	default:
		return 10 + T.Intn(max(1, m/30))
	}
}

func genAACCalls(T *Tape, g *muxGen, c *muxCfg, ts *trackSpec, n int, t0 float64, until float64, out *[]*writeCall) {
	pts := int64(t0 * float64(ts.clock))
	gapMode := T.Intn(3) // 0 none, 1 small jitter, 2 occasional gaps
	if g.constLeading && ts.leading {
		gapMode = 0
	}
	maxAUs := Pick(T, 1, 1, 2, 4)
	if g.singleAUAudio {
		maxAUs = 1
	}
	for i := 0; i < n; i++ {
		if until != 0 && float64(pts)/float64(ts.clock) >= until {
			break
		}
		k := T.Range(1, maxAUs)
		cl := &writeCall{track: ts, pts: pts}
		for j := 0; j < k; j++ {
			size := Pick(T, 10, 20, 60, 200)
			if g.bigPayloads {
				size = min(bigSize(T, c), 8000) // an ADTS frame cannot carry more than 8191 bytes
			}
			u := &unit{track: ts.id, idx: len(ts.units), dts: pts + int64(j)*1024, pts: pts + int64(j)*1024, ra: true}
			au := taggedPayload(ts.id, u.idx, size)
			if T.Chance(1, 40) {
				// raw access units are opaque bytes: some begin like an ADTS header (12-bit syncword)
				au = append([]byte{0xff, byte(0xf0 | T.Intn(16))}, au...)
			}
			u.data = [][]byte{au}
			u.payload = au
			ts.units = append(ts.units, u)
			cl.units = append(cl.units, u)
		}
		*out = append(*out, cl)
		pts += int64(k) * 1024
		switch gapMode {
		case 1:
			pts += int64(T.Range(0, 30))
		case 2:
			if T.Chance(1, 20) {
				pts += int64(T.Range(1, 5000))
			}
		}
	}
}

func genOpusCalls(T *Tape, g *muxGen, c *muxCfg, ts *trackSpec, n int, t0 float64, until float64, out *[]*writeCall) {
	pts := int64(t0 * 48000)
	cfgFixed := -1
	if T.Chance(2, 3) || (g.constLeading && ts.leading) {
		cfgFixed = Pick(T, 1, 3, 15, 19, 27, 31, 30)
	}
	maxPk := Pick(T, 1, 1, 2, 3)
	if g.singleAUAudio {
		maxPk = 1
	}
	for i := 0; i < n; i++ {
		if until != 0 && float64(pts)/48000 >= until {
			break
		}
		k := T.Range(1, maxPk)
		cl := &writeCall{track: ts, pts: pts}
		p := pts
		for j := 0; j < k; j++ {
			cfg := cfgFixed
			if cfg < 0 {
				cfg = T.Intn(32)
			}
			u := &unit{track: ts.id, idx: len(ts.units), dts: p, pts: p, ra: true}
			osz := Pick(T, 10, 30, 80)
			if g.bigPayloads {
				osz = bigSize(T, c)
			}
			pkt, d := opusPacket(cfg, ts.id, u.idx, osz)
			u.data = [][]byte{pkt}
			u.payload = pkt
			ts.units = append(ts.units, u)
			cl.units = append(cl.units, u)
			p += d
		}
		*out = append(*out, cl)
		pts = p
		if !(g.constLeading && ts.leading) && T.Chance(1, 30) {
			pts += int64(T.Range(1, 2000))
		}
	}
}

// ---------------------------------------------------------------------------
// the world

type muxWorld struct {
	r       *Run
	cfg     *muxCfg
	m       *gohlslib.Muxer
	script  []*writeCall
	next    int // next call to write
	writer  *Task
	reqs    []*Task
	encErrs []string
	// what the user's OnEncodeError callback does besides recording (burst profiles: it takes its time)
	onEncodeError func()
	encMu         sync.Mutex
	pending       []*httpResp
	closed        bool
	errCall       *writeCall
	// observation/probe requests of the harness never park at hooks when this is set
	probesBypassHooks bool

	// observation state (filled by observe)
	obs *muxObs
}

func newMuxWorld(r *Run, c *muxCfg, script []*writeCall) (*muxWorld, error) {
	w := &muxWorld{r: r, cfg: c, script: script}
	r.Scrub = func(s string) string { return prefixRe.ReplaceAllString(s, "PFX_") }
	// the muxer's URI prefix (crypto/rand in production) comes from the tape
	pfx := fmt.Sprintf("%06x%06x", r.T.Intn(1<<24), r.T.Intn(1<<24))
	gohlslib.VerifPrefix = func() string { return pfx }
	r.Cleanup(func() { gohlslib.VerifPrefix = nil })
	if c.disk {
		d, err := os.MkdirTemp("", "verif-mux-")
		if err != nil {
			panic(err)
		}
		c.dir = d
		r.Cleanup(func() { os.RemoveAll(d) })
	}
	var tracks []*gohlslib.Track
	for _, ts := range c.tracks {
		tracks = append(tracks, ts.t)
	}
	w.m = &gohlslib.Muxer{
		Tracks: tracks,
		Variant: func() gohlslib.MuxerVariant {
			if c.variant == gohlslib.MuxerVariantLowLatency && c.defaultVariant {
				return 0 // left unset: the documented default is Low-Latency
			}
			return c.variant
		}(),
		SegmentCount:       c.segCount,
		SegmentMinDuration: c.segMin,
		PartMinDuration:    c.partMin,
		SegmentMaxSize:     c.segMaxSize,
		Directory:          c.dir,
		OnEncodeError: func(err error) {
			w.encMu.Lock()
			w.encErrs = append(w.encErrs, err.Error())
			w.encMu.Unlock()
			if w.onEncodeError != nil {
				w.onEncodeError()
			}
		},
	}
	if err := w.m.Start(); err != nil {
		return nil, err
	}
	w.writer = r.Go("writer")
	w.obs = newMuxObs(w)
	return w, nil
}

// doWrite performs one Write* call on the calling goroutine.
func (w *muxWorld) doWrite(cl *writeCall) error {
	ts := cl.track
	switch ts.kind {
	case "h264":
		if sep := cl.units[0].sep; sep != nil {
			if err := w.m.WriteH264(ts.t, cl.ntp, cl.pts, sep); err != nil {
				return err
			}
		}
		return w.m.WriteH264(ts.t, cl.ntp, cl.pts, cl.units[0].data)
	case "h265":
		if sep := cl.units[0].sep; sep != nil {
			if err := w.m.WriteH265(ts.t, cl.ntp, cl.pts, sep); err != nil {
				return err
			}
		}
		return w.m.WriteH265(ts.t, cl.ntp, cl.pts, cl.units[0].data)
	case "vp9":
		return w.m.WriteVP9(ts.t, cl.ntp, cl.pts, cl.units[0].data[0])
	case "av1":
		return w.m.WriteAV1(ts.t, cl.ntp, cl.pts, cl.units[0].data)
	case "aac":
		var aus [][]byte
		for _, u := range cl.units {
			aus = append(aus, u.data[0])
		}
		return w.m.WriteMPEG4Audio(ts.t, cl.ntp, cl.pts, aus)
	default:
		var pk [][]byte
		for _, u := range cl.units {
			pk = append(pk, u.data[0])
		}
		return w.m.WriteOpus(ts.t, cl.ntp, cl.pts, pk)
	}
}

// writeNext starts the next write on the writer task (returns after the system is at rest;
// the writer may be parked at a hook).
func (w *muxWorld) writeNext() *writeCall {
	cl := w.script[w.next]
	w.next++
	w.writer.Start(func() {
		cl.err = w.doWrite(cl)
		cl.done = true
	})
	return cl
}

func (w *muxWorld) progress() int { return w.next }

func (w *muxWorld) idleRequester() *Task {
	for _, t := range w.reqs {
		if t.Idle() {
			return t
		}
	}
	t := w.r.Go(fmt.Sprintf("req%d", len(w.reqs)))
	t.NoHook = w.probesBypassHooks
	w.reqs = append(w.reqs, t)
	return t
}

// newClient creates a requester task that does park at armed hook sites.
func (w *muxWorld) newClient(name string) *Task {
	return w.r.Go(name)
}

// request issues a request on a given (idle) task without waiting for rest.
func (w *muxWorld) request(t *Task, pathAndQuery string) *httpResp {
	u, err := url.Parse("http://origin/" + pathAndQuery)
	if err != nil {
		panic(err)
	}
	resp := &httpResp{path: pathAndQuery, hdr: http.Header{}, invoke: w.progress(), task: t}
	w.pending = append(w.pending, resp)
	req := &http.Request{Method: "GET", URL: u, Header: http.Header{}}
	t.StartNoWait(func() {
		w.m.Handle(&respWriter{resp}, req)
		resp.mu.Lock()
		resp.done = true
		resp.mu.Unlock()
	})
	return resp
}

// get issues a request through a requester task and waits for the system to rest.
// The response may still be pending (blocked inside the muxer or parked at a hook).
func (w *muxWorld) get(pathAndQuery string) *httpResp {
	resp := w.getNoWait(pathAndQuery)
	syncWait()
	w.poll()
	return resp
}

func (w *muxWorld) getNoWait(pathAndQuery string) *httpResp {
	t := w.idleRequester()
	u, err := url.Parse("http://origin/" + pathAndQuery)
	if err != nil {
		panic(err)
	}
	resp := &httpResp{path: pathAndQuery, hdr: http.Header{}, invoke: w.progress(), task: t}
	w.pending = append(w.pending, resp)
	req := &http.Request{Method: "GET", URL: u, Header: http.Header{}}
	t.StartNoWait(func() {
		w.m.Handle(&respWriter{resp}, req)
		resp.mu.Lock()
		resp.done = true
		resp.mu.Unlock()
	})
	return resp
}

// poll stamps responses that completed since the last rest point.
func (w *muxWorld) poll() []*httpResp {
	var completed []*httpResp
	kept := w.pending[:0]
	for _, p := range w.pending {
		if p.isDone() {
			p.ret = w.progress()
			p.retStep = w.r.Stats.Steps
			completed = append(completed, p)
		} else {
			kept = append(kept, p)
		}
	}
	w.pending = kept
	return completed
}

func (w *muxWorld) dirEntries() []string {
	if w.cfg.dir == "" {
		return nil
	}
	es, err := os.ReadDir(w.cfg.dir)
	if err != nil {
		return []string{"<readdir error: " + err.Error() + ">"}
	}
	var out []string
	for _, e := range es {
		out = append(out, e.Name())
	}
	sort.Strings(out)
	return out
}

// finish drains pending blocking requests by closing the muxer and lets tasks exit.
func (w *muxWorld) finish() {
	for i := 0; i < 50; i++ {
		pk := w.r.ParkedTasks()
		if len(pk) == 0 {
			break
		}
		for _, t := range pk {
			t.Resume()
		}
	}
	if !w.closed && w.writer.Idle() {
		w.closed = true
		w.writer.Start(func() { w.m.Close() })
		for i := 0; i < 50; i++ {
			pk := w.r.ParkedTasks()
			if len(pk) == 0 {
				break
			}
			for _, t := range pk {
				t.Resume()
			}
		}
	}
	w.poll()
	w.r.StopTasks()
}

// directGet performs a request synchronously on the calling goroutine.
func (w *muxWorld) directGet(pathAndQuery string) *httpResp {
	u, err := url.Parse("http://origin/" + pathAndQuery)
	if err != nil {
		panic(err)
	}
	resp := &httpResp{path: pathAndQuery, hdr: http.Header{}}
	w.m.Handle(&respWriter{resp}, &http.Request{Method: "GET", URL: u, Header: http.Header{}})
	resp.mu.Lock()
	resp.done = true
	resp.mu.Unlock()
	return resp
}
