package sim

import (
	"bytes"
	"fmt"
)

// Independent minimal MPEG-TS demultiplexer for the oracles (ISO/IEC 13818-1):
// PAT -> PMT -> elementary streams, PES reassembly, PTS/DTS, Annex-B / ADTS split.
// It decodes one segment on its own, as a player joining at that segment would.

type tsES struct {
	pid   int
	codec string
	buf   []byte
	open  bool
}

func pesTime(b []byte) int64 {
	return int64(b[0]>>1&7)<<30 | int64(b[1])<<22 | int64(b[2]>>1)<<15 | int64(b[3])<<7 | int64(b[4]>>1)
}

func splitAnnexB(b []byte) [][]byte {
	var out [][]byte
	start := -1
	i := 0
	for i+3 <= len(b) {
		if b[i] == 0 && b[i+1] == 0 && b[i+2] == 1 {
			if start >= 0 {
				end := i
				if end > start && b[end-1] == 0 { // 4-byte start code
					end--
				}
				out = append(out, b[start:end])
			}
			start = i + 3
			i += 3
			continue
		}
		i++
	}
	if start >= 0 && start <= len(b) {
		out = append(out, b[start:])
	}
	return out
}

func splitADTS(b []byte) ([][]byte, error) {
	var out [][]byte
	for len(b) > 0 {
		if len(b) < 7 || b[0] != 0xff || b[1]&0xf0 != 0xf0 {
			return nil, fmt.Errorf("bad ADTS sync")
		}
		hdr := 7
		if b[1]&1 == 0 {
			hdr = 9
		}
		fl := int(b[3]&3)<<11 | int(b[4])<<3 | int(b[5]>>5)
		if fl < hdr || fl > len(b) {
			return nil, fmt.Errorf("bad ADTS frame length %d (have %d)", fl, len(b))
		}
		out = append(out, b[hdr:fl])
		b = b[fl:]
	}
	return out, nil
}

// decodeTS decodes one MPEG-TS segment on its own (it must be independently decodable).
func decodeTS(b []byte) (samples []tsSample, tracks []string, patFirst bool, err error) {
	if len(b)%188 != 0 {
		return nil, nil, false, fmt.Errorf("length %d is not a multiple of 188", len(b))
	}
	pmtPID := -1
	var ess []*tsES
	byPID := map[int]*tsES{}
	flush := func(es *tsES, idx int) error {
		if !es.open || len(es.buf) == 0 {
			return nil
		}
		p := es.buf
		es.buf = nil
		if len(p) < 9 || p[0] != 0 || p[1] != 0 || p[2] != 1 {
			return fmt.Errorf("pid %d: bad PES start code", es.pid)
		}
		flags := p[7] >> 6
		hl := int(p[8])
		if len(p) < 9+hl {
			return fmt.Errorf("pid %d: short PES header", es.pid)
		}
		var pts, dts int64
		switch flags {
		case 2:
			pts = pesTime(p[9:])
			dts = pts
		case 3:
			pts = pesTime(p[9:])
			dts = pesTime(p[14:])
		default:
			return fmt.Errorf("pid %d: PES without PTS", es.pid)
		}
		payload := p[9+hl:]
		if plen := int(p[4])<<8 | int(p[5]); plen != 0 && plen != len(p)-6 {
			return fmt.Errorf("pid %d: PES_packet_length %d but %d bytes follow", es.pid, plen, len(p)-6)
		}
		switch es.codec {
		case "h264":
			nalus := splitAnnexB(payload)
			if len(nalus) > 0 && len(nalus[0]) > 0 && nalus[0][0]&0x1f == 9 {
				nalus = nalus[1:] // access unit delimiter added by the container writer
			}
			samples = append(samples, tsSample{track: idx, codec: "h264", pts: pts, dts: dts, data: nalus})
		case "aac":
			aus, e := splitADTS(payload)
			if e != nil {
				return e
			}
			samples = append(samples, tsSample{track: idx, codec: "aac", pts: pts, dts: dts, data: aus})
		default:
			samples = append(samples, tsSample{track: idx, codec: es.codec, pts: pts, dts: dts, data: [][]byte{payload}})
		}
		return nil
	}
	for off, pk := 0, 0; off < len(b); off, pk = off+188, pk+1 {
		p := b[off : off+188]
		if p[0] != 0x47 {
			return nil, nil, false, fmt.Errorf("packet %d: no sync byte", pk)
		}
		pusi := p[1]&0x40 != 0
		pid := int(p[1]&0x1f)<<8 | int(p[2])
		afc := p[3] >> 4 & 3
		pl := p[4:]
		if afc&2 != 0 {
			if int(pl[0])+1 > len(pl) {
				return nil, nil, false, fmt.Errorf("packet %d: bad adaptation field", pk)
			}
			pl = pl[1+int(pl[0]):]
		}
		if afc&1 == 0 {
			pl = nil
		}
		switch {
		case pid == 0:
			if pk == 0 {
				patFirst = true
			}
			if !pusi || len(pl) < 1 {
				continue
			}
			sec := pl[1+int(pl[0]):]
			if len(sec) < 12 || sec[0] != 0 {
				return nil, nil, false, fmt.Errorf("bad PAT")
			}
			sl := int(sec[1]&0x0f)<<8 | int(sec[2])
			ents := sec[8 : 3+sl-4]
			for i := 0; i+4 <= len(ents); i += 4 {
				if prog := int(ents[i])<<8 | int(ents[i+1]); prog != 0 {
					pmtPID = int(ents[i+2]&0x1f)<<8 | int(ents[i+3])
				}
			}
		case pid == pmtPID:
			if pk == 1 && patFirst {
				// PAT then PMT
			} else if pk == 1 {
				patFirst = false
			}
			if !pusi || len(pl) < 1 || len(ess) > 0 {
				continue
			}
			sec := pl[1+int(pl[0]):]
			if len(sec) < 16 || sec[0] != 2 {
				return nil, nil, false, fmt.Errorf("bad PMT")
			}
			sl := int(sec[1]&0x0f)<<8 | int(sec[2])
			pil := int(sec[10]&0x0f)<<8 | int(sec[11])
			ents := sec[12+pil : 3+sl-4]
			for len(ents) >= 5 {
				st := ents[0]
				epid := int(ents[1]&0x1f)<<8 | int(ents[2])
				eil := int(ents[3]&0x0f)<<8 | int(ents[4])
				codec := fmt.Sprintf("stream-type-0x%02x", st)
				switch st {
				case 0x1b:
					codec = "h264"
				case 0x0f:
					codec = "aac"
				}
				es := &tsES{pid: epid, codec: codec}
				ess = append(ess, es)
				byPID[epid] = es
				tracks = append(tracks, codec)
				if 5+eil > len(ents) {
					break
				}
				ents = ents[5+eil:]
			}
		default:
			if pk == 1 {
				patFirst = false
			}
			es := byPID[pid]
			if es == nil {
				if pid == 0x1fff {
					continue
				}
				return nil, nil, patFirst, fmt.Errorf("packet %d: PID %d appears before PAT/PMT announced it", pk, pid)
			}
			if pusi {
				idx := 0
				for i, e := range ess {
					if e == es {
						idx = i
					}
				}
				if e := flush(es, idx); e != nil {
					return nil, nil, patFirst, e
				}
				es.open = true
			}
			if es.open {
				es.buf = append(es.buf, pl...)
			}
		}
	}
	// flush in order of completion is unknown at EOF; flush by PID order of appearance
	for i, es := range ess {
		if e := flush(es, i); e != nil {
			return nil, nil, patFirst, e
		}
	}
	if len(b) < 376 {
		patFirst = false
	}
	if pmtPID < 0 || len(ess) == 0 {
		return nil, nil, patFirst, fmt.Errorf("no PAT/PMT in segment")
	}
	_ = bytes.Equal
	return samples, tracks, patFirst, nil
}
