package sim

import (
	"github.com/bluenviron/gohlslib/v2"
	"github.com/bluenviron/gohlslib/v2/pkg/storage"
)

func init() {
	HookInstaller = func(h func(site string)) {
		gohlslib.VerifYieldHook = h
		storage.VerifYieldHook = h
	}
}
