package sim

import (
	"errors"
	"fmt"
	"net/http"
	"regexp"
	"runtime"
	"strings"
	"sync"
	"time"

	"github.com/bluenviron/gohlslib/v2"
	"github.com/bluenviron/gohlslib/v2/pkg/codecs"
)

// The client world driver: a real Client, the simulated network, callbacks logged with simulated time.

type cliDelivery struct {
	at     time.Duration
	pts    int64
	dts    int64
	hasDTS bool
	data   [][]byte
	ntp    time.Time
	hasNTP bool
}

type cliWorld struct {
	r   *Run
	net *cliNet
	c   *gohlslib.Client

	mu            sync.Mutex
	tracks        []*gohlslib.Track
	onTracksN     int
	deliveries    [][]cliDelivery // per track index
	decodeErrs    []string
	callbacks     int
	cbAfterWait   int
	waitSeen      bool
	waitErr       error
	waitAt        time.Duration
	waitExtra     int
	onTracksErr   error
	onTracksDelay time.Duration // simulated time the user's OnTracks callback takes
	closedAt      time.Duration
	closeCalls    int
	// Close is called from inside the n-th user callback (0: never), i.e. on one of the client's own goroutines
	closeAtCallback  int
	closedInCallback bool
	started          bool
	limit            time.Duration
	afterWait        time.Duration // how long to keep observing after Wait yielded
	onEvent          func(ev int)  // called before each pump iteration with the event counter
	events           int
	stuckProbe       bool
	stopWaiter       chan struct{}
	closedFirst      bool
	lastNow          time.Duration
	lastReqs         int
	zeroTimeReqs     int
}

var clientDelaySites = []string{"client.leadingTimeConv.set", "client.leadingTimeConv.got", "client.processor.afterPull",
	"client.primary.beforeStartStreaming", "client.downloader.beforePush", "client.processor.beforePush"}

func newCliWorld(r *Run, org origin, uri string, fate func(nr *netReq) *netFate) *cliWorld {
	w := &cliWorld{r: r, limit: 10 * time.Minute, afterWait: 30 * time.Second}
	// the client's own goroutines: in half of the runs each instrumented point takes 0-3 ns of simulated time,
	// fixed per site for the run, which decides who goes first where several of them are ready at once
	if r.T.Chance(1, 2) {
		for _, site := range clientDelaySites {
			r.SetDelay(site, time.Duration(r.T.Intn(4)))
		}
		r.Probe("client-goroutine-order-perturbed")
		// C12: one site additionally holds its goroutine long enough for Close, a fault or a delivery to land while
		// the hand-over is half done (not in C13: there the client mostly ends through errors of its own, at instants
		// the harness does not control, and the length of such a shutdown would depend on the runtime's scheduling)
		if r.Prop == "C12" && r.T.Chance(1, 2) {
			site := clientDelaySites[r.T.Intn(len(clientDelaySites))]
			if r.T.Chance(1, 2) {
				site = "client.processor.beforePush" // the one site inside a loop: fragment by fragment, sample by sample
			}
			// up to longer than a fragment plays, so that a track processor can get ahead of its stream processor
			hold := time.Duration(Pick(r.T, 200, 1000, 5000, 20000, 100000, 300000)) * time.Microsecond
			r.SetDelay(site, hold)
			r.Log("client", "0s (harness) goroutines passing %s are held %v", site, hold)
			r.Probe("client-goroutine-held")
		}
	}
	r.RestBarrier = func() {
		w.mu.Lock()
		w.mu.Unlock() //nolint:staticcheck
	}
	tr := newSimTransport(r)
	w.net = &cliNet{r: r, tr: tr, org: org, fateOf: fate}
	w.c = &gohlslib.Client{
		URI:                       uri,
		HTTPClient:                &http.Client{Transport: tr},
		OnRequest:                 func(*http.Request) { w.cb() },
		OnTracks:                  w.onTracks,
		OnDownloadPrimaryPlaylist: func(u string) { w.cb(); r.Log("client", "%v primary %s", r.Now(), u) },
		OnDownloadStreamPlaylist:  func(u string) { w.cb(); r.Log("client", "%v playlist %s", r.Now(), u) },
		OnDownloadSegment:         func(u string) { w.cb(); r.Log("client", "%v segment %s", r.Now(), u) },
		OnDownloadPart:            func(u string) { w.cb(); r.Log("client", "%v part %s", r.Now(), u) },
		OnDecodeError: func(err error) {
			w.cb()
			w.mu.Lock()
			w.decodeErrs = append(w.decodeErrs, err.Error())
			w.mu.Unlock()
		},
	}
	return w
}

func (w *cliWorld) cb() {
	w.mu.Lock()
	w.callbacks++
	if w.waitSeen {
		w.cbAfterWait++
	}
	closeNow := w.closeAtCallback > 0 && w.callbacks == w.closeAtCallback
	if closeNow {
		w.closeCalls++
		w.closedAt = w.r.Now()
		w.closedFirst = !w.waitSeen
		w.closedInCallback = true
	}
	w.mu.Unlock()
	if closeNow {
		w.r.Fault("close")
		w.r.HoldsOff()
		w.c.Close() // on the client's own goroutine, inside the user's callback
	}
}

func (w *cliWorld) onTracks(tracks []*gohlslib.Track) error {
	w.cb()
	w.mu.Lock()
	w.onTracksN++
	w.tracks = tracks
	w.deliveries = make([][]cliDelivery, len(tracks))
	err := w.onTracksErr
	delay := w.onTracksDelay
	w.mu.Unlock()
	if delay > 0 {
		time.Sleep(delay) // simulated: faults and Close can land while the callback executes
	}
	for i, t := range tracks {
		i, t := i, t
		rec := func(pts, dts int64, hasDTS bool, data [][]byte) {
			w.cb()
			d := cliDelivery{at: w.r.Now(), pts: pts, dts: dts, hasDTS: hasDTS, data: data}
			if ntp, ok := w.c.AbsoluteTime(t); ok {
				d.ntp, d.hasNTP = ntp, true
			}
			w.mu.Lock()
			w.deliveries[i] = append(w.deliveries[i], d)
			w.mu.Unlock()
		}
		switch t.Codec.(type) {
		case *codecs.AV1:
			w.c.OnDataAV1(t, func(pts int64, tu [][]byte) { rec(pts, pts, false, tu) })
		case *codecs.VP9:
			w.c.OnDataVP9(t, func(pts int64, frame []byte) { rec(pts, pts, false, [][]byte{frame}) })
		case *codecs.H264, *codecs.H265:
			w.c.OnDataH26x(t, func(pts, dts int64, au [][]byte) { rec(pts, dts, true, au) })
		case *codecs.MPEG4Audio:
			w.c.OnDataMPEG4Audio(t, func(pts int64, aus [][]byte) { rec(pts, pts, false, aus) })
		case *codecs.Opus:
			w.c.OnDataOpus(t, func(pts int64, pk [][]byte) { rec(pts, pts, false, pk) })
		}
	}
	return err
}

func (w *cliWorld) closeClient() {
	w.closeCalls++
	if w.closeCalls == 1 {
		w.closedAt = w.r.Now()
		w.mu.Lock()
		w.closedFirst = !w.waitSeen // at rest: the waiter goroutine has recorded any value already yielded
		w.mu.Unlock()
	}
	w.r.HoldsOff()
	w.c.Close()
	syncWait()
}

// pollWait is kept for call sites that want to make sure the waiter goroutine has run.
func (w *cliWorld) pollWait() { syncWait() }

// startWaiter receives from Wait() on a goroutine of its own, so that the moment of the first value
// is recorded exactly (and callbacks after it are counted from that instant on).
func (w *cliWorld) startWaiter() {
	w.stopWaiter = make(chan struct{})
	go func() {
		for {
			select {
			case err := <-w.c.Wait():
				w.mu.Lock()
				if w.waitSeen {
					w.waitExtra++
				} else {
					w.waitSeen, w.waitErr, w.waitAt = true, err, w.r.Now()
				}
				w.mu.Unlock()
				w.r.Log("client", "%v Wait -> %v", w.r.Now(), err)
				w.net.tr.poke()
			case <-w.stopWaiter:
				return
			}
		}
	}()
}

// run drives the world until Wait has yielded and the observation window after it has passed,
// or until the simulated time limit.
func (w *cliWorld) run() {
	if err := w.c.Start(); err != nil {
		w.r.Tracef("client Start error: %v", err)
		return
	}
	w.started = true
	w.startWaiter()
	for {
		syncWait()
		w.events++
		if w.onEvent != nil {
			w.onEvent(w.events)
			syncWait()
		}
		next := w.net.pump()
		w.pollWait()
		w.r.Step()
		now := w.r.Now()
		// a client that keeps issuing requests without any simulated time passing is busy-looping
		if now == w.lastNow && len(w.net.log) > w.lastReqs {
			w.zeroTimeReqs += len(w.net.log) - w.lastReqs
		} else if now != w.lastNow {
			w.zeroTimeReqs = 0
		}
		w.lastNow, w.lastReqs = now, len(w.net.log)
		if w.zeroTimeReqs > 3000 {
			last := w.net.log[len(w.net.log)-1]
			w.r.Fail("busy-loop", "requests-without-time", "the client issued %d requests without any simulated time passing (last: %s)", w.zeroTimeReqs, last.url)
			break
		}
		end := w.limit
		w.mu.Lock()
		if w.waitSeen && w.waitAt+w.afterWait < end {
			end = w.waitAt + w.afterWait
		}
		w.mu.Unlock()
		if now >= end {
			break
		}
		target := end
		if next >= 0 && next < target {
			target = next
		}
		w.net.waitUntil(target)
	}
	w.pollWait()
}

var muxerFrame = regexp.MustCompile(`gohlslib/v2\.\(\*[mM]uxer`)

// clientGoroutines returns the stacks of goroutines that are executing gohlslib client code: any goroutine
// with a frame of package gohlslib that is not a muxer frame (helper goroutines started by the client outside
// its routine pool count too).
func clientGoroutines() []string {
	syncWait()
	if r := currentRun.Load(); r != nil {
		r.SettleHolds() // a goroutine held at an instrumented point is on its way out, not leaked
	}
	buf := make([]byte, 1<<20)
	n := runtime.Stack(buf, true)
	var out []string
	for _, g := range strings.Split(string(buf[:n]), "\n\n") {
		if !strings.Contains(g, "github.com/bluenviron/gohlslib/v2.") || muxerFrame.MatchString(g) {
			continue
		}
		out = append(out, g)
	}
	return out
}

// finish closes the client (if needed) so that the bubble can end.
func (w *cliWorld) finish() {
	if !w.started {
		return
	}
	w.c.Close()
	for i := 0; i < 5; i++ {
		syncWait()
		w.net.pump()
	}
	if w.stopWaiter != nil {
		close(w.stopWaiter)
		w.stopWaiter = nil
	}
	syncWait()
}

func isTerminated(err error) bool { return err != nil && err.Error() == "terminated" }

func describeErr(err error) string {
	switch {
	case err == nil:
		return "nil"
	case errors.Is(err, gohlslib.ErrClientEOS):
		return "EOS"
	}
	return fmt.Sprintf("%q", err.Error())
}
