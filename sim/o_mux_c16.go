package sim

import (
	"encoding/hex"
	"fmt"
	"math"
	"sort"
	"strconv"
	"strings"
	"time"
)

// C16: the multivariant playlist truthfully describes tracks, renditions and bitrate.
// Codec strings come from an own RFC 6381 / ISO 14496-15 formatter.

func removeEPB(b []byte) []byte {
	out := make([]byte, 0, len(b))
	z := 0
	for _, c := range b {
		if z >= 2 && c == 3 {
			z = 0
			continue
		}
		out = append(out, c)
		if c == 0 {
			z++
		} else {
			z = 0
		}
	}
	return out
}

// hevcCodecString derives "hvc1...." from the raw SPS (ISO/IEC 14496-15 annex E).
func hevcCodecString(sps []byte) string {
	b := removeEPB(sps[2:])
	// sps_video_parameter_set_id(4) max_sub_layers_minus1(3) temporal_id_nesting(1)
	ptl := b[1:]
	space := ptl[0] >> 6
	tier := ptl[0] >> 5 & 1
	idc := ptl[0] & 0x1f
	compat := uint32(ptl[1])<<24 | uint32(ptl[2])<<16 | uint32(ptl[3])<<8 | uint32(ptl[4])
	var rev uint32
	for i := 0; i < 32; i++ {
		if compat&(1<<uint(31-i)) != 0 {
			rev |= 1 << uint(i)
		}
	}
	cons := append([]byte(nil), ptl[5:11]...)
	level := ptl[11]
	for len(cons) > 1 && cons[len(cons)-1] == 0 {
		cons = cons[:len(cons)-1]
	}
	s := "hvc1."
	if space > 0 {
		s += string(rune('A' + space - 1))
	}
	s += strconv.Itoa(int(idc)) + "." + strconv.FormatUint(uint64(rev), 16) + "."
	if tier == 1 {
		s += "H"
	} else {
		s += "L"
	}
	s += strconv.Itoa(int(level))
	for _, c := range cons {
		s += "." + strconv.FormatUint(uint64(c), 16)
	}
	return s
}

type videoFacts struct {
	w, h int
	fps  float64 // 0 = not signalled
}

// facts about the fixed parameter-set vectors (documented with the vectors themselves)
var h265Facts = []videoFacts{{1280, 720, 30}, {1920, 1080, 60}, {3072, 1728, 17}}
var av1Facts = []videoFacts{{1920, 804, 0}, {1920, 818, 0}}

func (p *videoParams) facts(kind string) videoFacts {
	switch kind {
	case "h264":
		// geometry and timing were chosen by h264SPS's caller: recover them from the variant table
		for k := 0; k < 16; k++ {
			q := videoParamVariantR("h264", k, p.reorder)
			if string(q.sps) == string(p.sps) {
				dims := [][2]int{{120, 68}, {80, 45}, {40, 30}, {20, 15}}[k%4]
				fps := []float64{30, 0, 25, 30000.0 / 1001.0}[k%4]
				return videoFacts{dims[0] * 16, dims[1] * 16, fps}
			}
		}
	case "h265":
		for i, s := range h265SPSs {
			q := append([]byte(nil), p.sps...)
			q[3] &^= 0x60
			if string(s) == string(q) {
				return h265Facts[i]
			}
		}
		return h265Facts[p.h265Idx] // variants whose profile_tier_level was rewritten keep geometry and timing
	case "vp9":
		return videoFacts{p.vp9W, p.vp9H, 0}
	case "av1":
		if p.av1 != nil {
			return videoFacts{p.av1.w, p.av1.h, 0}
		}
		for i, s := range av1SeqHdrs {
			if string(s) == string(p.seqHdr) {
				return av1Facts[i]
			}
		}
	}
	return videoFacts{}
}

// codecStringOK compares an advertised CODECS entry with the track's current parameters.
func codecStringOK(ts *trackSpec, p *videoParams, got string) (bool, string) {
	lg := strings.ToLower(got)
	switch ts.kind {
	case "h264":
		want := "avc1." + hex.EncodeToString(p.sps[1:4])
		return lg == want, want
	case "h265":
		want := hevcCodecString(p.sps)
		return lg == strings.ToLower(want), want
	case "vp9":
		// vp09.PP.LL.DD - the level is not derivable from the parameters
		f := strings.Split(lg, ".")
		want := fmt.Sprintf("vp09.%02d.<level>.%02d", p.vp9Profile, p.vp9Depth)
		if len(f) < 4 || f[0] != "vp09" || f[1] != fmt.Sprintf("%02d", p.vp9Profile) || len(f[2]) != 2 || f[3] != fmt.Sprintf("%02d", p.vp9Depth) {
			return false, want
		}
		return true, want
	case "av1":
		if p.av1 != nil {
			// every field as the sequence header declares it; the optional tail may only be left out as a whole and
			// only when it holds the default values
			want := p.av1.codecString()
			if lg == strings.ToLower(want) {
				return true, want
			}
			if short := want[:len("av01.0.00M.00")]; strings.HasSuffix(want, ".0.110.01.01.01.0") && lg == strings.ToLower(short) {
				return true, want
			}
			return false, want
		}
		want := "av01.0.08M.08"
		if !strings.HasPrefix(lg, strings.ToLower(want)) {
			return false, want
		}
		rest := strings.TrimPrefix(lg, strings.ToLower(want))
		if rest != "" && rest != ".0.110.01.01.01.0" {
			return false, want + "[.0.110.01.01.01.0]"
		}
		return true, want
	case "aac":
		return lg == "mp4a.40.2", "mp4a.40.2"
	case "opus":
		return lg == "opus", "opus"
	}
	return false, "?"
}

// paramsAt returns the parameters most recently handed to the muxer for a video track before call c.
func paramsAt(ts *trackSpec, c int) *videoParams {
	cur := ts.initial
	for _, u := range ts.units {
		if u.call >= c {
			break
		}
		if u.carries {
			cur = u.params
		}
	}
	return cur
}

func (a *muxAnalysis) oracleC16() {
	if a.failed {
		return
	}
	o := a.o
	cfg := a.cfg
	lt := a.lead
	var audio []*trackSpec
	for _, ts := range cfg.tracks {
		if !ts.video {
			audio = append(audio, ts)
		}
	}
	// renditions the statement prescribes
	var wantRend []*trackSpec
	for _, ts := range audio {
		if !ts.leading || len(cfg.tracks) > 1 {
			wantRend = append(wantRend, ts)
		}
	}
	if cfg.vname == "mpegts" {
		wantRend = nil // one stream carries everything
	}
	for _, ms := range o.multi {
		fail := func(oracle, key, format string, args ...any) {
			a.fail(oracle, key, "index.m3u8 after call %d: "+format+"\n%s", append(append([]any{ms.afterCall}, args...), ms.raw)...)
		}
		pl := ms.pl
		if len(pl.Variants) != 1 {
			fail("variant", "count", "%d variants", len(pl.Variants))
			return
		}
		v := pl.Variants[0]
		suffix := ""
		if ms.query != "" {
			suffix = "?" + ms.query
		}
		if ms.query != "" && !strings.HasSuffix(v.URI, suffix) {
			fail("query", "variant-uri", "variant URI %q does not carry the request's query string %q", v.URI, ms.query)
			return
		}
		if ms.query == "" && strings.Contains(v.URI, "?") {
			fail("query", "variant-uri", "variant URI %q carries a query string nobody asked for", v.URI)
			return
		}
		if ls := a.streamOfTrack[lt.id]; ls != nil && stripQuery(v.URI) != ls.uri {
			fail("variant", "uri", "variant URI %q is not the playlist of the leading stream (%s)", v.URI, ls.uri)
			return
		}
		// CODECS: the set of strings of all tracks' current parameters
		want := map[string]bool{}
		got := map[string]bool{}
		for _, c := range v.Codecs {
			got[strings.ToLower(c)] = true
		}
		if len(got) != len(v.Codecs) {
			fail("codecs", "duplicate", "CODECS lists an entry twice: %v", v.Codecs)
			return
		}
		for _, ts := range cfg.tracks {
			p := ts.initial
			if ts.video {
				p = paramsAt(ts, ms.afterCall)
			}
			matched := false
			wantStr := ""
			for _, c := range v.Codecs {
				ok, w := codecStringOK(ts, p, c)
				wantStr = w
				if ok {
					matched = true
					want[strings.ToLower(c)] = true
				}
			}
			if !matched {
				fail("codecs", ts.kind, "CODECS %v lacks the string of track %d (%s, current parameters %s): expected %s", v.Codecs, ts.id, ts.kind,
					func() string {
						if p != nil {
							return p.desc
						}
						return "-"
					}(), wantStr)
				return
			}
		}
		for c := range got {
			if !want[c] {
				fail("codecs", "extra", "CODECS entry %q corresponds to no track", c)
				return
			}
		}
		// RESOLUTION / FRAME-RATE
		if lt.video {
			f := paramsAt(lt, ms.afterCall).facts(lt.kind)
			if f.w > 0 {
				if wantRes := fmt.Sprintf("%dx%d", f.w, f.h); v.Resolution != wantRes {
					fail("resolution", lt.kind, "RESOLUTION %q, current parameter sets say %s", v.Resolution, wantRes)
					return
				}
			}
			if f.fps > 0 {
				g, err := strconv.ParseFloat(v.FrameRate, 64)
				if err != nil || math.Abs(g-f.fps) > 0.002 {
					fail("frame-rate", lt.kind, "FRAME-RATE %q, current parameter sets say %.3f", v.FrameRate, f.fps)
					return
				}
			} else if v.FrameRate != "" && (lt.kind == "h264" || lt.kind == "h265") {
				fail("frame-rate", lt.kind, "FRAME-RATE %q although the parameter sets carry no timing", v.FrameRate)
				return
			}
		} else if v.Resolution != "" {
			fail("resolution", "audio-only", "RESOLUTION %q on an audio-only muxer", v.Resolution)
			return
		}
		// renditions
		if len(pl.Renditions) != len(wantRend) {
			fail("renditions", "count", "%d EXT-X-MEDIA renditions, the track list calls for %d", len(pl.Renditions), len(wantRend))
			return
		}
		defaults := 0
		names := map[string]bool{}
		usedTrack := map[int]bool{}
		for i, rd := range pl.Renditions {
			// which track does this rendition describe? (by URI; the leading stream's rendition has none)
			var ts *trackSpec
			for _, cand := range wantRend {
				if usedTrack[cand.id] {
					continue
				}
				if !rd.HasURI && cand.leading {
					ts = cand
					break
				}
				if rd.HasURI && !cand.leading {
					if s := a.streamOfTrack[cand.id]; s != nil && s.uri == stripQuery(rd.URI) {
						ts = cand
						break
					}
				}
			}
			if ts == nil {
				// tracks whose stream has not published a unit yet cannot be told apart by URI: take the
				// first candidate of the right kind whose stream is still unknown
				for _, cand := range wantRend {
					if !usedTrack[cand.id] && a.streamOfTrack[cand.id] == nil && rd.HasURI == !cand.leading {
						ts = cand
						break
					}
				}
			}
			if ts == nil {
				fail("renditions", "unmatched", "rendition %d (URI %q) corresponds to no audio track that needs one", i, rd.URI)
				return
			}
			usedTrack[ts.id] = true
			if rd.Type != "AUDIO" {
				fail("renditions", "type", "rendition %d has TYPE %s", i, rd.Type)
				return
			}
			if v.Audio == "" || rd.GroupID != v.Audio {
				fail("renditions", "group", "rendition %d is in group %q, the variant's AUDIO group is %q", i, rd.GroupID, v.Audio)
				return
			}
			if ts.name != "" && rd.Name != ts.name {
				fail("renditions", "name", "rendition %d has NAME %q, the track's name is %q", i, rd.Name, ts.name)
				return
			}
			if rd.Name == "" || names[rd.Name] && ts.name == "" {
				fail("renditions", "name", "rendition %d has an empty or repeated generated NAME %q", i, rd.Name)
				return
			}
			names[rd.Name] = true
			if rd.Language != ts.lang {
				fail("renditions", "language", "rendition %d has LANGUAGE %q, the track's language is %q", i, rd.Language, ts.lang)
				return
			}
			if ts.leading {
				if rd.HasURI {
					fail("renditions", "uri", "the leading stream's rendition carries a URI %q", rd.URI)
					return
				}
			} else {
				if !rd.HasURI {
					fail("renditions", "uri", "rendition %d (track %d) has no URI", i, ts.id)
					return
				}
				if s := a.streamOfTrack[ts.id]; s != nil && stripQuery(rd.URI) != s.uri {
					fail("renditions", "uri", "rendition %d (track %d) points at %q but its units are served by %s", i, ts.id, rd.URI, s.uri)
					return
				}
				if ms.query != "" && !strings.HasSuffix(rd.URI, suffix) {
					fail("query", "rendition-uri", "rendition URI %q does not carry the query string %q", rd.URI, ms.query)
					return
				}
			}
			if rd.Default {
				defaults++
			}
			wantDef := ts.isDef
			anyMarked := false
			for _, t2 := range wantRend {
				if t2.isDef {
					anyMarked = true
				}
			}
			if !anyMarked {
				wantDef = i == 0
			}
			if rd.Default != wantDef {
				fail("renditions", "default", "rendition %d (track %d): DEFAULT=%v, expected %v", i, ts.id, rd.Default, wantDef)
				return
			}
		}
		if len(wantRend) > 0 && defaults != 1 {
			fail("renditions", "default-count", "%d renditions are DEFAULT", defaults)
			return
		}
		if len(wantRend) == 0 && v.Audio != "" {
			fail("renditions", "group", "variant names AUDIO group %q but there are no renditions", v.Audio)
			return
		}
		// bandwidth
		if !v.HasAvg || v.AvgBandwidth <= 0 || v.Bandwidth < v.AvgBandwidth {
			fail("bandwidth", "order", "BANDWIDTH=%d AVERAGE-BANDWIDTH=%d (present=%v): need BANDWIDTH >= AVERAGE-BANDWIDTH > 0", v.Bandwidth, v.AvgBandwidth, v.HasAvg)
			return
		}
		if len(o.streams) == 1 {
			// peak and mean bit rate of the segments listed at the same instant
			var sn *plSnap
			for _, x := range o.streams[0].history {
				if x.afterCall <= ms.afterCall {
					sn = x
				}
			}
			if sn == nil {
				continue
			}
			var peak, sizes float64
			var durs time.Duration
			exact := true
			for _, seg := range sn.pl.Segments {
				if seg.Gap {
					continue
				}
				obj := o.objects[stripQuery(seg.URI)]
				if obj == nil || obj.body == nil {
					exact = false
					break
				}
				sz := float64(len(obj.body))
				if seg.Duration > 0 {
					if bw := 8 * sz / seg.Duration.Seconds(); bw > peak {
						peak = bw
					}
				}
				sizes += sz
				durs += seg.Duration
			}
			if !exact || durs <= 0 {
				continue
			}
			mean := 8 * sizes / durs.Seconds()
			// durations are known to the 10 us of the text: allow the corresponding relative error
			tol := func(x float64, d time.Duration) float64 { return x*(2e-5/math.Max(d.Seconds(), 1e-5)) + 2 }
			minDur := time.Duration(math.MaxInt64)
			for _, seg := range sn.pl.Segments {
				if !seg.Gap && seg.Duration > 0 && seg.Duration < minDur {
					minDur = seg.Duration
				}
			}
			if math.Abs(float64(v.Bandwidth)-peak) > tol(peak, minDur) {
				fail("bandwidth", "peak", "BANDWIDTH=%d, peak bit rate of the listed segments is %.0f", v.Bandwidth, peak)
				return
			}
			// the sum of n durations carries n times the text's rounding error
			nseg := 0
			for _, seg := range sn.pl.Segments {
				if !seg.Gap {
					nseg++
				}
			}
			if math.Abs(float64(v.AvgBandwidth)-mean) > mean*(float64(nseg+1)*1e-5/math.Max(durs.Seconds(), 1e-5))+2 {
				fail("bandwidth", "mean", "AVERAGE-BANDWIDTH=%d, mean bit rate of the listed segments is %.0f", v.AvgBandwidth, mean)
				return
			}
			o.w.r.Probe("bandwidth-recomputed")
		}
	}
	_ = sort.Ints
}
