package sim

import (
	"bytes"
	"encoding/binary"
	"fmt"
	"net/url"
	"os"
	"strconv"
	"strings"
	"time"

	"github.com/bluenviron/mediacommon/v2/pkg/codecs/mpeg4audio"
	"github.com/bluenviron/mediacommon/v2/pkg/formats/fmp4"
	"github.com/bluenviron/mediacommon/v2/pkg/formats/fmp4/seekablebuffer"
	"github.com/bluenviron/mediacommon/v2/pkg/formats/mpegts"
)

// Stub origin: a stream model rendered into MPEG-TS or fMP4 and served through
// playlists written by the harness's own emitter.

type sUnit struct {
	dts, pts int64 // container time base (fMP4: track timescale incl. base time; MPEG-TS: 90 kHz, unwrapped)
	dur      int64
	key      bool
	data     [][]byte // NALUs / OBUs / single frame / single AU
	payload  []byte   // fMP4 sample payload
	seg      int
}

type sTrack struct {
	id    int // fMP4 track ID
	kind  string
	video bool
	scale int
	units []*sUnit
	codec fmp4.Codec
	ts    *mpegts.Track
	// for oracles
	supported bool
	// the timescale the init section declares when it is not the real one (C13: degenerate declarations)
	initScale *uint32
}

type sSeg struct {
	idx             int
	first           []int // per track: index of first unit
	count           []int
	dur             time.Duration
	pdt             *time.Time
	body            []byte
	uri             string // as written in the playlist
	brLen           uint64
	brStart         uint64
	hasBR           bool
	brExplicitStart bool
	gapTag          bool          // listed with EXT-X-GAP
	availAt         time.Duration // live: when the segment becomes available
	frags           int
}

type sStream struct {
	name      string
	container string // ts | fmp4
	tracks    []*sTrack
	segs      []*sSeg
	init      []byte
	initURI   string
	// the playlist carries EXT-X-SERVER-CONTROL without CAN-BLOCK-RELOAD and an EXT-X-PRELOAD-HINT
	hintNoBlock bool
	initBR      int               // EXT-X-MAP BYTERANGE: 0 none, 1 "n@o", 2 "n" (no offset: from the start of the resource)
	initOff     uint64            // offset of the init section inside its resource (initBR 1)
	blobs       map[string][]byte // byte-range resources by URI
	blobURI     string
	plURL       *url.URL
	// playlist evolution
	mode       string // vod | event | live | scripted
	window     int
	baseMSN    int
	cursor     int // scripted: index of the last listed segment
	steps      []int
	polls      int
	endAfter   int // ENDLIST once this many segments are listed (-1: never)
	plType     string
	hasPDT     bool
	served     []*servedPL // every playlist state served, in order
	rendition  *mvRendition
	llHints    bool
	canSkip    bool
	targetDur  int
	emptyTrafs bool // C13: fragments carry a traf without samples for tracks that have no unit in them
	version    int
	indep      bool
}

type servedPL struct {
	at       time.Duration
	first    int
	last     int
	endlist  bool
	skip     bool
	hintPart string
}

type stubOrigin struct {
	r        *Run
	streams  []*sStream // [0] is the leading stream
	multi    bool
	multiURL *url.URL
	multiRaw []byte
	start    time.Duration
	// request log as seen by the origin, in arrival order
	arrivals []*netReq
}

// ---------------------------------------------------------------------------
// rendering

func renderInit(st *sStream) []byte {
	var in fmp4.Init
	for _, t := range st.tracks {
		scale := uint32(t.scale)
		if t.initScale != nil {
			scale = *t.initScale
		}
		in.Tracks = append(in.Tracks, &fmp4.InitTrack{ID: t.id, TimeScale: scale, Codec: t.codec})
	}
	var buf seekablebuffer.Buffer
	if err := in.Marshal(&buf); err != nil {
		panic(fmt.Sprintf("stub origin: init marshal: %v", err))
	}
	return buf.Bytes()
}

func renderFMP4Segment(st *sStream, sg *sSeg, seqBase *uint32) []byte {
	var out []byte
	for _, f := range renderFMP4Fragments(st, sg, seqBase) {
		out = append(out, f...)
	}
	return out
}

// renderFMP4Fragments renders the fragments (moof+mdat) of a segment one by one.
func renderFMP4Fragments(st *sStream, sg *sSeg, seqBase *uint32) [][]byte {
	var out [][]byte
	nf := sg.frags
	if nf < 1 {
		nf = 1
	}
	// split by the leading (first) track's units; other tracks proportionally
	for f := 0; f < nf; f++ {
		part := fmp4.Part{SequenceNumber: *seqBase}
		*seqBase++
		for ti, t := range st.tracks {
			n := sg.count[ti]
			lo := sg.first[ti] + n*f/nf
			hi := sg.first[ti] + n*(f+1)/nf
			if hi <= lo {
				if st.emptyTrafs && len(t.units) > 0 {
					// a traf whose trun has no samples
					part.Tracks = append(part.Tracks, &fmp4.PartTrack{ID: t.id, BaseTime: uint64(t.units[min(lo, len(t.units)-1)].dts)})
				}
				continue
			}
			pt := &fmp4.PartTrack{ID: t.id, BaseTime: uint64(t.units[lo].dts)}
			for _, u := range t.units[lo:hi] {
				pt.Samples = append(pt.Samples, &fmp4.PartSample{
					Duration: uint32(u.dur), PTSOffset: int32(u.pts - u.dts), IsNonSyncSample: t.video && !u.key, Payload: u.payload,
				})
			}
			part.Tracks = append(part.Tracks, pt)
		}
		if len(part.Tracks) == 0 {
			continue
		}
		var buf seekablebuffer.Buffer
		if err := part.Marshal(&buf); err != nil {
			panic(fmt.Sprintf("stub origin: part marshal: %v", err))
		}
		out = append(out, append([]byte(nil), buf.Bytes()...))
	}
	return out
}

type swWriter struct{ b *[]byte }

func (w swWriter) Write(p []byte) (int, error) { *w.b = append(*w.b, p...); return len(p), nil }

func renderTSStream(st *sStream) {
	var cur []byte
	sw := swWriter{&cur}
	var tracks []*mpegts.Track
	for _, t := range st.tracks {
		t.ts = &mpegts.Track{Codec: t.ts.Codec} // a fresh track: the writer assigns PIDs
		tracks = append(tracks, t.ts)
	}
	w := &mpegts.Writer{W: sw, Tracks: tracks}
	if err := w.Initialize(); err != nil {
		panic(fmt.Sprintf("stub origin: mpegts writer: %v", err))
	}
	for _, sg := range st.segs {
		cur = nil
		// interleave units of all tracks by decode time
		idx := make([]int, len(st.tracks))
		for {
			best := -1
			var bt float64
			for ti, t := range st.tracks {
				if idx[ti] >= sg.count[ti] {
					continue
				}
				u := t.units[sg.first[ti]+idx[ti]]
				tt := float64(u.dts)
				if best < 0 || tt < bt {
					best, bt = ti, tt
				}
			}
			if best < 0 {
				break
			}
			t := st.tracks[best]
			u := t.units[sg.first[best]+idx[best]]
			idx[best]++
			var err error
			switch t.kind {
			case "h264":
				err = w.WriteH264(t.ts, mod33(u.pts), mod33(u.dts), u.data)
			case "aac":
				err = w.WriteMPEG4Audio(t.ts, mod33(u.pts), u.data)
			case "opus":
				err = w.WriteOpus(t.ts, mod33(u.pts), u.data)
			case "mp3":
				err = w.WriteMPEG1Audio(t.ts, mod33(u.pts), u.data)
			case "h265":
				err = w.WriteH265(t.ts, mod33(u.pts), mod33(u.dts), u.data)
			}
			if err != nil {
				panic(fmt.Sprintf("stub origin: mpegts write %s: %v", t.kind, err))
			}
		}
		sg.body = cur
	}
}

// ---------------------------------------------------------------------------
// playlists (own emitter)

func fmtDur(d time.Duration) string { return strconv.FormatFloat(d.Seconds(), 'f', 5, 64) }

func (st *sStream) playlist(first, last int, endlist bool, skipTo int) []byte {
	var b strings.Builder
	b.WriteString("#EXTM3U\n")
	fmt.Fprintf(&b, "#EXT-X-VERSION:%d\n", st.version)
	if st.indep {
		b.WriteString("#EXT-X-INDEPENDENT-SEGMENTS\n")
	}
	fmt.Fprintf(&b, "#EXT-X-TARGETDURATION:%d\n", st.targetDur)
	fmt.Fprintf(&b, "#EXT-X-MEDIA-SEQUENCE:%d\n", st.baseMSN+first)
	if st.plType != "" {
		fmt.Fprintf(&b, "#EXT-X-PLAYLIST-TYPE:%s\n", st.plType)
	}
	if st.hintNoBlock {
		// a server that publishes a preload hint but cannot block playlist reloads: not a Low-Latency session
		b.WriteString("#EXT-X-SERVER-CONTROL:PART-HOLD-BACK=3.00000\n#EXT-X-PART-INF:PART-TARGET=1.00000\n")
	}
	if st.container == "fmp4" {
		switch st.initBR {
		case 1:
			fmt.Fprintf(&b, "#EXT-X-MAP:URI=\"%s\",BYTERANGE=\"%d@%d\"\n", st.initURI, len(st.init), st.initOff)
		case 2:
			fmt.Fprintf(&b, "#EXT-X-MAP:URI=\"%s\",BYTERANGE=\"%d\"\n", st.initURI, len(st.init))
		default:
			fmt.Fprintf(&b, "#EXT-X-MAP:URI=\"%s\"\n", st.initURI)
		}
	}
	for i := first; i <= last && i < len(st.segs); i++ {
		sg := st.segs[i]
		if sg.pdt != nil {
			fmt.Fprintf(&b, "#EXT-X-PROGRAM-DATE-TIME:%s\n", sg.pdt.UTC().Format("2006-01-02T15:04:05.000Z07:00"))
		}
		if sg.gapTag {
			b.WriteString("#EXT-X-GAP\n")
		}
		fmt.Fprintf(&b, "#EXTINF:%s,\n", fmtDur(sg.dur))
		if sg.hasBR {
			if sg.brExplicitStart || i == first { // the first listed range needs an explicit offset (RFC 8216 4.3.2.2)
				fmt.Fprintf(&b, "#EXT-X-BYTERANGE:%d@%d\n", sg.brLen, sg.brStart)
			} else {
				fmt.Fprintf(&b, "#EXT-X-BYTERANGE:%d\n", sg.brLen)
			}
		}
		b.WriteString(sg.uri + "\n")
	}
	if st.hintNoBlock && !endlist {
		h := last + 1
		if h >= len(st.segs) {
			h = len(st.segs) - 1
		}
		if h >= 0 && !st.segs[h].hasBR {
			fmt.Fprintf(&b, "#EXT-X-PRELOAD-HINT:TYPE=PART,URI=\"%s\"\n", st.segs[h].uri)
		}
	}
	if endlist {
		b.WriteString("#EXT-X-ENDLIST\n")
	}
	return []byte(b.String())
}

// state of the playlist at the time of a request
func (st *sStream) stateAt(now time.Duration) (first, last int, endlist bool) {
	n := len(st.segs)
	switch st.mode {
	case "vod":
		return 0, n - 1, true
	case "scripted":
		if st.polls > 0 {
			step := 0
			if st.polls-1 < len(st.steps) {
				step = st.steps[st.polls-1]
			}
			st.cursor += step
		}
		st.polls++
		if st.cursor > n-1 {
			st.cursor = n - 1
		}
		last = st.cursor
	default: // event | live: by simulated time
		last = -1
		for i, sg := range st.segs {
			if sg.availAt <= now {
				last = i
			}
		}
	}
	endlist = st.endAfter >= 0 && last+1 >= st.endAfter
	if endlist && last+1 > st.endAfter {
		last = st.endAfter - 1
	}
	first = 0
	if st.mode != "event" && st.window > 0 && last-st.window+1 > 0 {
		first = last - st.window + 1
	}
	return
}

func (o *stubOrigin) multivariant() []byte {
	var b strings.Builder
	b.WriteString("#EXTM3U\n#EXT-X-VERSION:9\n#EXT-X-INDEPENDENT-SEGMENTS\n")
	var codecs []string
	for _, st := range o.streams {
		for _, t := range st.tracks {
			c := map[string]string{"h264": "avc1.42c028", "h265": "hvc1.1.6.L93.B0", "aac": "mp4a.40.2", "opus": "opus", "vp9": "vp09.00.10.08", "av1": "av01.0.08M.08"}[t.kind]
			if c == "" {
				c = "mp4a.40.2"
			}
			dup := false
			for _, x := range codecs {
				if x == c {
					dup = true
				}
			}
			if !dup {
				codecs = append(codecs, c)
			}
		}
	}
	audio := ""
	for _, st := range o.streams[1:] {
		rd := st.rendition
		fmt.Fprintf(&b, "#EXT-X-MEDIA:TYPE=AUDIO,GROUP-ID=\"aud\",NAME=\"%s\"", rd.Name)
		if rd.Language != "" {
			fmt.Fprintf(&b, ",LANGUAGE=\"%s\"", rd.Language)
		}
		if rd.Default {
			b.WriteString(",AUTOSELECT=YES,DEFAULT=YES")
		}
		fmt.Fprintf(&b, ",URI=\"%s\"\n", rd.URI)
		audio = ",AUDIO=\"aud\""
	}
	fmt.Fprintf(&b, "#EXT-X-STREAM-INF:BANDWIDTH=1500000,AVERAGE-BANDWIDTH=1200000,CODECS=\"%s\"%s\n", strings.Join(codecs, ","), audio)
	// the variant URI relative to the multivariant URL
	b.WriteString(o.streams[0].rendition.URI + "\n")
	return []byte(b.String())
}

// ---------------------------------------------------------------------------
// serving

func parseRange(h string) (start, end uint64, ok bool) {
	if !strings.HasPrefix(h, "bytes=") {
		return 0, 0, false
	}
	p := strings.SplitN(h[6:], "-", 2)
	if len(p) != 2 {
		return 0, 0, false
	}
	s, err1 := strconv.ParseUint(p[0], 10, 64)
	e, err2 := strconv.ParseUint(p[1], 10, 64)
	return s, e, err1 == nil && err2 == nil
}

func sameResource(a, b *url.URL) bool {
	return a.Scheme == b.Scheme && a.Host == b.Host && a.Path == b.Path
}

func (o *stubOrigin) serve(nr *netReq) *originResp {
	o.arrivals = append(o.arrivals, nr)
	u := nr.req.URL
	now := o.r.Now()
	if o.multi && sameResource(u, o.multiURL) {
		return &originResp{status: 200, body: o.multiRaw, ctype: "application/vnd.apple.mpegurl", done: true}
	}
	for _, st := range o.streams {
		if sameResource(u, st.plURL) {
			first, last, end := st.stateAt(now)
			st.served = append(st.served, &servedPL{at: now, first: first, last: last, endlist: end})
			if last < 0 {
				return &originResp{status: 404, body: []byte("not yet"), done: true}
			}
			if os.Getenv("VERIF_DEBUG") != "" {
				fmt.Fprintf(os.Stderr, "DBG playlist %s at %v:\nDBG %s\n", st.name, now, strings.ReplaceAll(string(st.playlist(first, last, end, 0)), "\n", "\nDBG "))
			}
			return &originResp{status: 200, body: st.playlist(first, last, end, 0), ctype: "application/vnd.apple.mpegurl", done: true}
		}
		res := func(ref string) *url.URL {
			r, err := url.Parse(ref)
			if err != nil {
				return nil
			}
			return st.plURL.ResolveReference(r)
		}
		if st.initURI != "" {
			if iu := res(st.initURI); iu != nil && sameResource(u, iu) {
				if st.initBR == 0 {
					return &originResp{status: 200, body: st.init, ctype: "video/mp4", done: true}
				}
				// the init section sits inside a larger resource: bytes before it (initBR 1) and after it
				body := append(append(bytes.Repeat([]byte{0xee}, int(st.initOff)), st.init...), bytes.Repeat([]byte{0xdd}, 37)...)
				if h := nr.req.Header.Get("Range"); h != "" {
					s, e, ok := parseRange(h)
					if !ok || s > e || e >= uint64(len(body)) {
						return &originResp{status: 416, body: []byte("bad range"), done: true}
					}
					return &originResp{status: 206, body: body[s : e+1], ctype: "video/mp4", done: true}
				}
				return &originResp{status: 200, body: body, ctype: "video/mp4", done: true}
			}
		}
		for _, sg := range st.segs {
			su := res(sg.uri)
			if su == nil || !sameResource(u, su) {
				continue
			}
			body := sg.body
			if sg.hasBR {
				body = st.blobs[sg.uri]
			}
			if h := nr.req.Header.Get("Range"); h != "" {
				s, e, ok := parseRange(h)
				if !ok || s > e || e >= uint64(len(body)) {
					return &originResp{status: 416, body: []byte("bad range"), done: true}
				}
				return &originResp{status: 206, body: body[s : e+1], ctype: "video/mp4", done: true}
			}
			return &originResp{status: 200, body: body, ctype: "video/mp4", done: true}
		}
	}
	return &originResp{status: 404, body: []byte("not found"), done: true}
}

// ---------------------------------------------------------------------------
// generation

type originGen struct {
	containers  []string
	modes       []string
	maxSegs     int
	minSegs     int
	renditions  bool
	byteRanges  bool
	bframes     bool
	multiFrag   bool
	minFrags    int // with multiFrag: at least this many fragments per fMP4 segment
	bigBases    bool
	unsupported bool // add tracks with codecs gohlslib has no decoder for (C13)
	fastLive    bool
	segDurMs    []int
	forceMulti  bool
	noPDTChance int
	// audio always travels in renditions with playlists of their own
	forceRenditions bool
}

func aacCodecTS(rate int) *mpegts.CodecMPEG4Audio {
	return &mpegts.CodecMPEG4Audio{Config: mpeg4audio.Config{Type: mpeg4audio.ObjectTypeAACLC, SampleRate: rate, ChannelCount: 2}}
}

// genStubOrigin draws a stream model and renders it.
func genStubOrigin(r *Run, g *originGen) *stubOrigin {
	T := r.T
	o := &stubOrigin{r: r}
	container := g.containers[T.Intn(len(g.containers))]
	mode := g.modes[T.Intn(len(g.modes))]
	nSeg := T.Range(g.minSegs, g.maxSegs)
	hasVideo := T.Chance(4, 5) || g.forceRenditions
	nAudioSame := 0
	nRend := 0
	tsRend := false
	if container == "ts" {
		if hasVideo {
			nAudioSame = Pick(T, 0, 1, 1, 2, 3)
			if g.renditions && T.Chance(1, 4) {
				// MPEG-TS audio renditions next to an MPEG-TS video variant
				nAudioSame, nRend, tsRend = 0, T.Range(1, 2), true
			}
		} else {
			nAudioSame = 1
		}
	} else {
		if g.renditions && hasVideo && (T.Chance(1, 2) || g.forceRenditions) {
			nRend = T.Range(1, 3)
		} else {
			nAudioSame = T.Intn(3)
			if !hasVideo && nAudioSame == 0 {
				nAudioSame = 1
			}
		}
	}
	segDur := time.Duration(Pick(T, g.segDurMs...)) * time.Millisecond
	fps := Pick(T, 10, 25, 30, 1, 2, 5)
	frameDur90 := int64(90000 / fps)
	framesPerSeg := int(int64(segDur) * int64(fps) / int64(time.Second))
	if framesPerSeg < 1 {
		framesPerSeg = 1
	}
	segDur = time.Duration(int64(framesPerSeg) * int64(time.Second) / int64(fps))
	hasPDT := !T.Chance(g.noPDTChance, 10)
	pdtBase := time.Date(2021+T.Intn(5), time.Month(1+T.Intn(12)), 1+T.Intn(28), T.Intn(24), T.Intn(60), T.Intn(60), T.Intn(1000)*1e6, time.UTC)

	// time base
	var baseSec float64
	if container == "ts" {
		switch T.Intn(4) {
		case 0:
			baseSec = 0
		case 1:
			baseSec = float64(T.Range(0, 95000))
		case 2:
			// wrap inside the stream: 2^33/90000 = 95443.7 s
			baseSec = 95443.7 - float64(T.Range(0, int(float64(nSeg)*segDur.Seconds())+1))
		default:
			baseSec = 10
		}
	} else {
		switch T.Intn(4) {
		case 0:
			baseSec = 0
		case 1:
			baseSec = 10
		case 2:
			if g.bigBases {
				baseSec = float64(T.Range(0, 12000000)) // up to ~2^40 at 90 kHz
			}
		default:
			baseSec = float64(T.Range(0, 100000))
		}
	}

	mkStream := func(name string, container string) *sStream {
		st := &sStream{name: name, container: container, mode: mode, hasPDT: hasPDT, endAfter: -1, version: 3, indep: true}
		if container == "fmp4" {
			st.version = 7
		}
		return st
	}
	lead := mkStream("main", container)
	o.streams = append(o.streams, lead)
	// in a quarter of the origins every unit of a track has the same size, so that segments (and byte ranges) of
	// equal length occur
	uniform := T.Chance(1, 4)
	sizeOf := func(choices ...int) int {
		if uniform {
			return choices[0]
		}
		return choices[T.Intn(len(choices))]
	}
	tid := 1
	addVideo := func(st *sStream) {
		kind := "h264"
		if container == "fmp4" {
			kind = Pick(T, "h264", "h264", "h265", "vp9", "av1")
		}
		t := &sTrack{id: tid, kind: kind, video: true, scale: 90000, supported: true}
		tid++
		p := videoParamVariant(kind, T.Intn(16))
		switch kind {
		case "h264":
			t.codec = &fmp4.CodecH264{SPS: p.sps, PPS: p.pps}
			t.ts = &mpegts.Track{Codec: &mpegts.CodecH264{}}
		case "h265":
			t.codec = &fmp4.CodecH265{VPS: p.vps, SPS: p.sps, PPS: p.pps}
		case "vp9":
			t.codec = &fmp4.CodecVP9{Width: p.vp9W, Height: p.vp9H, Profile: p.vp9Profile, BitDepth: p.vp9Depth, ChromaSubsampling: 1, ColorRange: p.vp9Range}
		case "av1":
			t.codec = &fmp4.CodecAV1{SequenceHeader: p.seqHdr}
		}
		base := int64(baseSec * 90000)
		bf := g.bframes && T.Chance(1, 2)
		n := nSeg * framesPerSeg
		for i := 0; i < n; i++ {
			key := i%framesPerSeg == 0
			u := &sUnit{dts: base + int64(i)*frameDur90, dur: frameDur90, key: key, seg: i / framesPerSeg}
			u.pts = u.dts
			if bf {
				// B-frame style presentation offsets: pts >= dts
				u.pts = u.dts + []int64{1, 3, 0, 1}[i%4]*frameDur90
			}
			u.data, u.payload = buildVideoUnit(kind, t.id, i, key, p, key, sizeOf(12, 40, 150))
			t.units = append(t.units, u)
		}
		st.tracks = append(st.tracks, t)
	}
	addAudio := func(st *sStream, leadBaseSec float64) {
		kind := "aac"
		if st.container == "fmp4" && T.Chance(1, 3) {
			kind = "opus"
		}
		rate := 48000
		if kind == "aac" {
			rate = Pick(T, 44100, 48000, 32000, 22050)
		}
		scale := rate
		if st.container == "ts" {
			scale = 90000
		}
		t := &sTrack{id: tid, kind: kind, scale: scale, supported: true}
		tid++
		var samplesPerUnit int64 = 1024
		if kind == "opus" {
			samplesPerUnit = 960
			t.codec = &fmp4.CodecOpus{ChannelCount: 2}
			t.ts = &mpegts.Track{Codec: &mpegts.CodecOpus{ChannelCount: 2}}
		} else {
			t.codec = &fmp4.CodecMPEG4Audio{Config: mpeg4audio.Config{Type: mpeg4audio.ObjectTypeAACLC, SampleRate: rate, ChannelCount: 2}}
			t.ts = &mpegts.Track{Codec: aacCodecTS(rate)}
		}
		// audio starts slightly before/after the video
		off := float64(T.Range(-200, 200)) / 1000.0
		if leadBaseSec+off < 0 {
			off = 0
		}
		total := float64(nSeg) * segDur.Seconds()
		unitSec := float64(samplesPerUnit) / float64(rate)
		n := int(total / unitSec)
		for i := 0; i < n; i++ {
			sec := leadBaseSec + off + float64(i)*unitSec
			var dts, dur int64
			if st.container == "ts" {
				dts = int64(sec * 90000)
				dur = int64(unitSec * 90000)
			} else {
				dts = int64((leadBaseSec+off)*float64(scale)) + int64(i)*samplesPerUnit*int64(scale)/int64(rate)
				dur = samplesPerUnit * int64(scale) / int64(rate)
			}
			u := &sUnit{dts: dts, pts: dts, dur: dur, key: true}
			var pl []byte
			if kind == "opus" {
				pl, _ = opusPacket(19, t.id, i, sizeOf(12, 40))
			} else {
				pl = taggedPayload(t.id, i, sizeOf(12, 40, 90))
			}
			u.data, u.payload = [][]byte{pl}, pl
			// which segment: by time relative to the leading base
			sgi := int((sec - leadBaseSec) / segDur.Seconds())
			if sgi < 0 {
				sgi = 0
			}
			if sgi >= nSeg {
				sgi = nSeg - 1
			}
			u.seg = sgi
			t.units = append(t.units, u)
		}
		st.tracks = append(st.tracks, t)
	}
	if hasVideo {
		addVideo(lead)
	}
	for i := 0; i < nAudioSame; i++ {
		addAudio(lead, baseSec)
	}
	// the video track need not be the first one the container lists (init section / PMT order)
	if hasVideo && len(lead.tracks) > 1 && T.Chance(1, 3) {
		k := T.Range(1, len(lead.tracks)-1)
		lead.tracks[0], lead.tracks[k] = lead.tracks[k], lead.tracks[0]
	}
	for i := 0; i < nRend; i++ {
		rc := "fmp4"
		if tsRend {
			rc = "ts"
		}
		rs := mkStream(fmt.Sprintf("aud%d", i), rc)
		tid = 1
		addAudio(rs, baseSec)
		o.streams = append(o.streams, rs)
	}

	// segments
	for _, st := range o.streams {
		for i := 0; i < nSeg; i++ {
			sg := &sSeg{idx: i, dur: segDur, first: make([]int, len(st.tracks)), count: make([]int, len(st.tracks)), frags: 1}
			if g.multiFrag && st.container == "fmp4" {
				sg.frags = Pick(T, 1, 1, 2, 3, 7, 10, 11, 14, 24)
				if sg.frags < g.minFrags {
					sg.frags = g.minFrags + T.Intn(6)
				}
			}
			for ti, t := range st.tracks {
				f, c := -1, 0
				for ui, u := range t.units {
					if u.seg == i {
						if f < 0 {
							f = ui
						}
						c++
					}
				}
				if f < 0 {
					f = 0
				}
				sg.first[ti], sg.count[ti] = f, c
			}
			if hasPDT {
				// PROGRAM-DATE-TIME is the wall-clock time of the segment's first sample of the leading track
				// (the video track if any, else the first), consistent across segments and streams
				li := 0
				for ti, t := range st.tracks {
					if t.video {
						li = ti
						break
					}
				}
				lt := st.tracks[li]
				off := time.Duration(i) * segDur
				if sg.count[li] > 0 {
					sec := float64(lt.units[sg.first[li]].dts)/float64(lt.scale) - baseSec
					off = time.Duration(sec * float64(time.Second))
				}
				t := pdtBase.Add(off)
				sg.pdt = &t
			}
			st.segs = append(st.segs, sg)
		}
	}

	// URLs
	host := "origin.example"
	dir := Pick(T, "/", "/live/", "/a/b/")
	q := Pick(T, "", "", "?sess=1")
	scheme := "http://"
	mkURL := func(s string) *url.URL {
		u, err := url.Parse(s)
		if err != nil {
			panic(err)
		}
		return u
	}
	uriStyle := T.Intn(7) // 0 relative, 1 subdir, 2 absolute other host, 3 query-carrying, 4 root-relative, 5 network-path, 6 parent-relative
	for si, st := range o.streams {
		st.plURL = mkURL(scheme + host + dir + st.name + ".m3u8" + q)
		seq := uint32(T.Intn(100))
		if st.container == "fmp4" {
			st.init = renderInit(st)
			st.initURI = st.name + "_init.mp4"
			if g.byteRanges && T.Chance(1, 5) {
				st.initBR = T.Range(1, 2)
				if st.initBR == 1 {
					st.initOff = uint64(T.Range(0, 300))
				}
			}
			if uriStyle == 3 {
				st.initURI += "?k=v"
			}
			for _, sg := range st.segs {
				sg.body = renderFMP4Segment(st, sg, &seq)
			}
		} else {
			renderTSStream(st)
		}
		ext := ".mp4"
		if st.container == "ts" {
			ext = ".ts"
		}
		useBR := g.byteRanges && T.Chance(1, 4)
		explicit := T.Chance(1, 2)
		perFile := Pick(T, 1<<30, 1<<30, 1, 2, 3) // segments packed into one resource
		st.blobs = map[string][]byte{}
		if useBR && T.Chance(1, 2) {
			// byte ranges of equal length: every segment is padded to the longest one (MPEG-TS: null packets;
			// fMP4: a trailing free box)
			target := 0
			for _, sg := range st.segs {
				if len(sg.body) > target {
					target = len(sg.body)
				}
			}
			if st.container != "ts" {
				target += 8
			}
			for _, sg := range st.segs {
				pad := target - len(sg.body)
				if st.container == "ts" {
					for ; pad >= 188; pad -= 188 {
						pk := make([]byte, 188)
						pk[0], pk[1], pk[2], pk[3] = 0x47, 0x1f, 0xff, 0x10
						for i := 4; i < 188; i++ {
							pk[i] = 0xff
						}
						sg.body = append(sg.body, pk...)
					}
				} else if pad >= 8 {
					box := make([]byte, pad)
					binary.BigEndian.PutUint32(box, uint32(pad))
					copy(box[4:], "free")
					sg.body = append(sg.body, box...)
				}
			}
		}
		for _, sg := range st.segs {
			name := fmt.Sprintf("%s_%d%s", st.name, sg.idx, ext)
			switch uriStyle {
			case 0:
				sg.uri = name
			case 1:
				sg.uri = "media/" + name
			case 2:
				sg.uri = "http://cdn.example:8080/x/" + name
			case 3:
				sg.uri = name + "?tok=" + strconv.Itoa(sg.idx)
			case 4:
				sg.uri = "/rootrel/media/" + name
			case 5:
				sg.uri = "//cdn2.example/np/" + name
			default:
				sg.uri = "../up/" + name
			}
			if useBR {
				sg.hasBR = true
				sg.uri = fmt.Sprintf("%s_all%d%s", st.name, sg.idx/perFile, ext)
				sg.brStart = uint64(len(st.blobs[sg.uri]))
				sg.brLen = uint64(len(sg.body))
				// the first range of a resource needs an explicit offset (the previous segment is another resource)
				sg.brExplicitStart = explicit || sg.brStart == 0
				st.blobs[sg.uri] = append(st.blobs[sg.uri], sg.body...)
			}
		}
		st.targetDur = int(segDur.Seconds() + 0.5)
		if st.targetDur < 1 {
			st.targetDur = 1
		}
		st.baseMSN = Pick(T, 0, 0, 1, 100, 70000)
		st.window = T.Range(1, 10)
		switch mode {
		case "vod":
			st.plType = "VOD"
		case "event":
			st.plType = Pick(T, "EVENT", "")
		}
		if mode == "live" || mode == "event" {
			// the first k0 segments are available at once, then one per segment duration
			k0 := T.Range(3, 5)
			speed := 1.0
			if g.fastLive {
				speed = Pick(T, 1.0, 1.0, 0.5)
			}
			for i, sg := range st.segs {
				if i < k0 {
					sg.availAt = 0
				} else {
					sg.availAt = time.Duration(float64(i-k0+1) * float64(segDur) * speed)
				}
			}
			st.endAfter = Pick(T, -1, nSeg, nSeg)
		}
		_ = si
	}
	// multivariant
	o.multi = len(o.streams) > 1 || g.forceMulti || T.Chance(1, 3)
	if o.multi {
		o.multiURL = mkURL(scheme + host + dir + "index.m3u8" + q)
		for i, st := range o.streams {
			// the media playlists need not sit beside the multivariant playlist, nor beside each other: every URI of
			// the multivariant playlist is relative to the multivariant playlist's URL
			sub := Pick(T, "", "", "", "v/", "renditions/a/")
			ref := sub + st.name + ".m3u8"
			if q != "" && T.Chance(1, 2) {
				ref += q
				st.plURL = mkURL(scheme + host + dir + sub + st.name + ".m3u8" + q)
			} else {
				// the playlist URL carries no query then
				st.plURL = mkURL(scheme + host + dir + sub + st.name + ".m3u8")
			}
			st.rendition = &mvRendition{Type: "AUDIO", GroupID: "aud", Name: fmt.Sprintf("track %d", i), URI: ref, HasURI: true}
			if i > 0 {
				st.rendition.Language = Pick(T, "", "en", "de")
				st.rendition.Default = i == 1
			}
		}
		o.multiRaw = o.multivariant()
	}
	return o
}

func (o *stubOrigin) primaryURL() string {
	if o.multi {
		return o.multiURL.String()
	}
	return o.streams[0].plURL.String()
}
