package sim

import (
	"context"
	"fmt"
	"runtime"
	"strconv"
	"strings"
	"sync"
	"sync/atomic"
	"time"

	"github.com/anishathalye/porcupine"
	"github.com/bluenviron/gohlslib/v2"
)

// W-QUEUE: direct drive of the client's private segment queue (C20, direct tier).
// One producer (Push, WaitUntilSizeIsBelow), one consumer (Pull), cancellation at
// any step; the three queue hooks are armed per run so that the scheduler decides
// every order of {unlock, capture channel, wait, close channel}.

type qOp struct {
	kind   string // push | wait | pull
	arg    uint64 // push: id; wait: n
	call   int64
	ret    int64 // 0 = not returned yet
	ok     bool  // wait/pull: true = completed, false = cancelled
	val    uint64
	client int
	// set by the task goroutine
	mu   sync.Mutex
	done bool
	// whether the context was already cancelled when the op was observed complete
	afterCancel bool
}

// endMarker is the value under which the end-of-stream sentinel travels through the model.
const endMarker = ^uint64(0)

type qIn struct {
	kind string
	arg  uint64
}
type qOut struct {
	ok  bool
	val uint64
}

var queueModel = porcupine.Model{
	Init: func() interface{} { return "" },
	Step: func(state, input, output interface{}) (bool, interface{}) {
		st := state.(string)
		in := input.(qIn)
		out := output.(qOut)
		var items []string
		if st != "" {
			items = strings.Split(st, ",")
		}
		switch in.kind {
		case "push", "push-end":
			v := in.arg
			if in.kind == "push-end" {
				v = endMarker
			}
			items = append(items, strconv.FormatUint(v, 10))
			return true, strings.Join(items, ",")
		case "pull":
			if !out.ok { // cancelled: no effect (legality w.r.t. cancellation is checked outside the model)
				return true, st
			}
			if len(items) == 0 || items[0] != strconv.FormatUint(out.val, 10) {
				return false, st
			}
			return true, strings.Join(items[1:], ",")
		case "wait":
			if !out.ok {
				return true, st
			}
			return len(items) <= int(in.arg), st
		}
		return false, st
	},
	DescribeOperation: func(input, output interface{}) string {
		return fmt.Sprintf("%v -> %v", input, output)
	},
}

func scQueueDirect(r *Run) {
	T := r.T
	q := gohlslib.NewVerifSegmentQueue()
	ctx, cancel := context.WithCancel(context.Background())
	defer cancel()

	// swarm: arm a random subset of the hook sites
	sites := []string{"queue.push.enter", "queue.pull.beforeWait", "queue.wait.beforeWait"}
	armedDesc := ""
	for _, s := range sites {
		if T.Chance(3, 4) {
			r.Arm(s)
			armedDesc += " " + s
		}
	}
	maxOps := T.Range(3, 40)
	cancelWeight := Pick(T, 0, 1, 1, 3)
	r.Tracef("config maxOps=%d cancelW=%d armed=[%s]", maxOps, cancelWeight, armedDesc)

	P := r.Go("producer")
	C := r.Go("consumer")

	var ops []*qOp
	var pending []*qOp
	nextID := uint64(1)
	cancelled := false
	var pushed, pulled []uint64
	quietObserve := false
	endPushed := false

	observe := func() {
		// stamp completions seen at this rest point
		kept := pending[:0]
		for _, op := range pending {
			op.mu.Lock()
			d := op.done
			op.mu.Unlock()
			if d {
				op.ret = int64(r.Stats.Steps)*2 + 1
				op.afterCancel = cancelled
				if op.kind == "pull" && op.ok {
					pulled = append(pulled, op.val)
				}
				if !cancelled {
					// results of operations that complete before cancellation are deterministic
					// (exactly one select case was ready) and are part of the trace
					r.Tracef("  done %s(%d) ok=%v val=%d", op.kind, op.arg, op.ok, op.val)
				} else if !quietObserve {
					r.Tracef("  done %s(%d)", op.kind, op.arg)
				}
			} else {
				kept = append(kept, op)
			}
		}
		pending = kept
	}

	start := func(t *Task, client int, kind string, arg uint64) {
		op := &qOp{kind: kind, arg: arg, client: client, call: int64(r.Stats.Steps) * 2}
		ops = append(ops, op)
		pending = append(pending, op)
		t.Start(func() {
			switch kind {
			case "push":
				q.Push(arg)
				op.ok = true
			case "wait":
				op.ok = q.WaitUntilSizeIsBelow(ctx, int(arg))
			case "push-end":
				q.PushEnd()
				op.ok = true
			case "pull":
				id, end, ok := q.Pull(ctx)
				op.ok, op.val = ok, id
				if ok && end {
					op.val = endMarker
				}
			}
			op.mu.Lock()
			op.done = true
			op.mu.Unlock()
		})
	}

	// lost wake-up oracle, evaluated at rest
	checkWake := func() {
		if cancelled {
			return
		}
		n := q.Len()
		// what the queue must hold according to the completed operations (the end marker counts as an entry)
		model := 0
		for _, op := range ops {
			if op.ret != 0 && op.ok {
				switch op.kind {
				case "push", "push-end":
					model++
				case "pull":
					model--
				}
			}
		}
		if model > n {
			n = model
		}
		for _, op := range pending {
			var t *Task
			if op.client == 0 {
				t = P
			} else {
				t = C
			}
			if !t.Blocked() {
				continue // parked at a hook or not inside the library
			}
			switch op.kind {
			case "pull":
				if n > 0 {
					r.Fail("lost-wakeup", "pull", "consumer is blocked in pull while the queue holds %d segment(s)", n)
				}
			case "wait":
				if n <= int(op.arg) {
					r.Fail("lost-wakeup", "waitUntilSizeIsBelow",
						"producer is blocked in waitUntilSizeIsBelow(%d) while the queue holds %d segment(s)", op.arg, n)
				}
			case "push":
				r.Fail("lost-wakeup", "push", "push is blocked")
			}
		}
	}

	// once the context is cancelled no new operation is issued: a select that finds both its cases ready
	// picks one at random inside the Go runtime, so results after cancellation must not steer the schedule
	for len(ops) < maxOps && r.Stats.Steps < 400 && !r.Failed() && !cancelled {
		observe()
		checkWake()
		if r.Failed() {
			break
		}
		var acts []Action
		if P.Idle() && !endPushed {
			acts = append(acts, Action{"producer push", 4, func() {
				id := nextID
				nextID++
				pushed = append(pushed, id)
				start(P, 0, "push", id)
			}})
			acts = append(acts, Action{"producer push-end", 1, func() {
				endPushed = true
				pushed = append(pushed, endMarker)
				start(P, 0, "push-end", 0)
				r.Probe("end-marker-pushed")
			}})
		}
		if P.Idle() {
			for _, n := range []uint64{0, 1, 2} {
				n := n
				acts = append(acts, Action{fmt.Sprintf("producer wait(%d)", n), 2, func() { start(P, 0, "wait", n) }})
			}
		}
		if C.Idle() {
			acts = append(acts, Action{"consumer pull", 5, func() { start(C, 1, "pull", 0) }})
		}
		for _, t := range r.ParkedTasks() {
			t := t
			acts = append(acts, Action{"resume " + t.Name + "@" + t.Parked(), 6, func() { t.Resume() }})
		}
		if !cancelled && cancelWeight > 0 {
			acts = append(acts, Action{"cancel", cancelWeight, func() {
				cancel()
				cancelled = true
				r.Fault("cancel")
				syncWait()
			}})
		}
		if len(acts) == 0 {
			// both tasks are blocked inside the library and nothing is parked
			break
		}
		r.Choose(acts)
	}
	observe()
	checkWake()
	r.Stats.NonTrivial = len(ops) >= 2
	for _, op := range ops {
		r.Cell("%s", op.kind)
	}

	// cancellation: both sides must return within the step
	if !r.Failed() {
		r.Step()
		r.Tracef("final cancel")
		if !cancelled {
			cancel()
			cancelled = true
			r.Fault("cancel")
		}
		syncWait()
		// after cancellation a select may find both of its cases ready and then picks one at random inside
		// the Go runtime: from here on nothing is traced per task and hooks no longer park anybody
		r.DisarmAll()
		for i := 0; i < 8; i++ {
			pk := r.ParkedTasks()
			if len(pk) == 0 {
				break
			}
			for _, t := range pk {
				t.Resume()
			}
		}
		quietObserve = true
		observe()
		for _, op := range pending {
			r.Fail("cancel-not-prompt", op.kind, "%s(%d) did not return after cancellation", op.kind, op.arg)
		}
	}

	// exactly-once / FIFO: what was pulled, plus what is still queued, is what was pushed
	if !r.Failed() {
		dctx := context.Background()
		rest := []uint64{}
		for q.Len() > 0 {
			id, end, ok := q.Pull(dctx)
			if !ok {
				break
			}
			if end {
				id = endMarker
			}
			rest = append(rest, id)
		}
		all := append(append([]uint64(nil), pulled...), rest...)
		if fmt.Sprint(all) != fmt.Sprint(pushed) {
			r.Fail("fifo-exactly-once", "drain", "pushed %v but pulled %v + remaining %v", pushed, pulled, rest)
		}
	}

	// linearizability against the sequential FIFO model
	if !r.Failed() {
		var hist []porcupine.Operation
		for _, op := range ops {
			if op.ret == 0 {
				continue
			}
			if !op.ok && op.kind != "push" && !op.afterCancel {
				r.Fail("spurious-cancel", op.kind, "%s(%d) reported cancellation before the context was cancelled", op.kind, op.arg)
			}
			hist = append(hist, porcupine.Operation{
				ClientId: op.client,
				Input:    qIn{op.kind, op.arg},
				Call:     op.call,
				Output:   qOut{op.ok, op.val},
				Return:   op.ret,
			})
		}
		if !r.Failed() && len(hist) > 0 {
			r.After(func() {
				if r.Failed() {
					return
				}
				res := porcupine.CheckOperationsTimeout(queueModel, hist, 20*time.Second)
				switch res {
				case porcupine.Illegal:
					r.Fail("linearizability", "fifo-model", "history of %d operations is not linearizable against the FIFO model", len(hist))
				case porcupine.Unknown:
					r.Probe("porcupine-unknown")
				default:
					r.Probe("porcupine-ok")
				}
			})
		}
	}

	// let the harness goroutines exit
	for _, t := range r.ParkedTasks() {
		t.Resume()
	}
	r.StopTasks()
	r.Stats.Sample = nil
}

// scQueueBurst: true concurrency instead of scheduled interleaving. One scheduler step releases the producer
// and the consumer together; they hammer the queue as fast as the Go runtime lets them, so that windows
// between two critical sections that carry no yield hook are reached by real preemption. Which interleavings
// occur is not decided by the tape (replay = re-running the seed); what is judged is only the state at rest:
// when both sides are durably blocked or finished, a consumer waiting on a non-empty queue (by the count of
// completed operations) or a producer waiting although the backlog is at or below its threshold is a lost
// wake-up, and everything pushed must have been pulled in order exactly once.
func scQueueBurst(r *Run) {
	T := r.T
	q := gohlslib.NewVerifSegmentQueue()
	ctx, cancel := context.WithCancel(context.Background())
	defer cancel()
	n := Pick(T, 2000, 5000, 20000)
	threshold := Pick(T, 0, 1, 1, 2)
	withEnd := T.Chance(1, 2)
	r.Tracef("burst n=%d threshold=%d end=%v", n, threshold, withEnd)
	P := r.Go("producer")
	C := r.Go("consumer")
	var pulledN, pushedN atomic.Int64
	var bad atomic.Value
	prodDone, consDone := false, false
	r.Step()
	P.StartNoWait(func() {
		for i := 1; i <= n; i++ {
			q.Push(uint64(i))
			pushedN.Add(1)
			if !q.WaitUntilSizeIsBelow(ctx, threshold) {
				return
			}
		}
		if withEnd {
			q.PushEnd()
			pushedN.Add(1)
		}
		prodDone = true
	})
	C.StartNoWait(func() {
		want := uint64(1)
		for {
			id, end, ok := q.Pull(ctx)
			if !ok {
				return
			}
			pulledN.Add(1)
			if end {
				if int(want) != n+1 {
					bad.Store(fmt.Sprintf("end marker pulled after %d of %d segments", want-1, n))
				}
				consDone = true
				return
			}
			if id != want {
				bad.Store(fmt.Sprintf("pulled segment %d, expected %d (FIFO, exactly once)", id, want))
				return
			}
			want++
			if !withEnd && int(want) == n+1 {
				consDone = true
				return
			}
		}
	})
	syncWait()
	r.Stats.NonTrivial = true
	if v := bad.Load(); v != nil {
		r.Fail("fifo-exactly-once", "burst", "%s", v.(string))
	} else if !prodDone || !consDone {
		pending := pushedN.Load() - pulledN.Load()
		switch {
		case C.Blocked() && pending > 0:
			r.Fail("lost-wakeup", "pull-burst", "at rest the consumer is blocked in pull although %d pushed segment(s) were not pulled yet (after %d pushes)", pending, pushedN.Load())
		case P.Blocked() && int(pending) <= threshold && !prodDone:
			r.Fail("lost-wakeup", "waitUntilSizeIsBelow-burst", "at rest the producer is blocked in waitUntilSizeIsBelow(%d) although only %d segment(s) wait (after %d pushes)", threshold, pending, pushedN.Load())
		default:
			r.Fail("stuck", "burst", "producer done=%v consumer done=%v pushed=%d pulled=%d", prodDone, consDone, pushedN.Load(), pulledN.Load())
		}
	} else {
		r.Probe("burst-completed")
	}
	cancel()
	syncWait()
	r.StopTasks()
}

// scQueueCancelBurst: "both return promptly on cancellation", for a cancellation that arrives while the waiter is on
// its way into the wait. Many rounds per run: a fresh queue (empty, or filled up to the waiter's threshold), one
// goroutine entering pull or waitUntilSizeIsBelow and one cancelling the context after a seeded number of
// scheduler yields, released in the same step. At rest the waiter must have returned.
func scQueueCancelBurst(r *Run) {
	T := r.T
	rounds := Pick(T, 200, 500, 1500)
	W := r.Go("waiter")
	X := r.Go("canceller")
	r.Tracef("cancel burst rounds=%d", rounds)
	for i := 0; i < rounds && !r.Failed(); i++ {
		q := gohlslib.NewVerifSegmentQueue()
		ctx, cancel := context.WithCancel(context.Background())
		usePull := T.Chance(1, 2)
		threshold := T.Intn(3)
		if !usePull {
			for k := 0; k <= threshold; k++ {
				q.Push(uint64(k + 1)) // size > threshold-1: the producer has to wait
			}
		}
		spinW, spinX := T.Intn(8), T.Intn(24)
		returned := false
		r.Step()
		W.StartNoWait(func() {
			for k := 0; k < spinW; k++ {
				runtime.Gosched()
			}
			if usePull {
				q.Pull(ctx)
			} else {
				q.WaitUntilSizeIsBelow(ctx, threshold)
			}
			returned = true
		})
		X.StartNoWait(func() {
			for k := 0; k < spinX; k++ {
				runtime.Gosched()
			}
			cancel()
		})
		syncWait()
		if !returned {
			what := "waitUntilSizeIsBelow"
			if usePull {
				what = "pull"
			}
			r.Fail("lost-cancellation", what, "round %d: the context was cancelled while a goroutine was entering %s; at rest it is still waiting", i, what)
			r.StopTasks()
			return
		}
		cancel()
	}
	r.Stats.NonTrivial = true
	r.Probe("cancel-burst-completed")
	r.StopTasks()
}

func init() {
	Properties["C20"].Profiles = append(Properties["C20"].Profiles, ProfileDef{Name: "queue-burst", Share: 1, Sc: scQueueBurst})
	Properties["C20"].Profiles = append(Properties["C20"].Profiles, ProfileDef{Name: "queue-cancel-burst", Share: 1, Sc: scQueueCancelBurst})
}
