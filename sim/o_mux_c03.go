package sim

import (
	"math/big"
	"time"
)

// C03: playlist durations, target durations and date-times match the media.

func durDiff(a, b time.Duration) time.Duration {
	if a > b {
		return a - b
	}
	return b - a
}

// spanDur is the exact media time between two leading units, rounded to the nearest nanosecond.
func spanDur(ticks int64, clock int) time.Duration {
	n := new(big.Int).Mul(big.NewInt(ticks), big.NewInt(1e9))
	n.Add(n, big.NewInt(int64(clock)/2))
	n.Div(n, big.NewInt(int64(clock)))
	return time.Duration(n.Int64())
}

const textRes = 10 * time.Microsecond

func (a *muxAnalysis) oracleC03() {
	if a.failed {
		return
	}
	cfg := a.cfg
	lt := a.lead
	o := a.o
	segByMSN := map[int]*segInfo{}
	for _, si := range a.segs {
		segByMSN[si.msn] = si
	}
	endOf := map[int]int{} // msn -> leading unit index that starts the next segment
	for _, si := range a.segs {
		endOf[si.msn] = si.first + si.count
	}
	// leading-unit ranges of parts, from the decoded part objects of the leading stream
	type prange struct{ first, count int }
	partRange := map[int]prange{}
	for _, d := range a.partDec[lt.id] {
		pr, ok := partRange[d.obj.num]
		if !ok {
			pr = prange{first: d.u.idx}
		}
		pr.count++
		partRange[d.obj.num] = pr
	}
	for _, s := range o.streams {
		prevTarget := 0
		for _, sn := range s.history {
			pl := sn.pl
			fail := func(oracle, key, format string, args ...any) {
				args = append([]any{s.uri, sn.afterCall}, args...)
				a.fail(oracle, key, "%s after call %d: "+format, args...)
			}
			if pl.TargetDuration < prevTarget {
				fail("target-duration", "decreased", "EXT-X-TARGETDURATION went from %d to %d", prevTarget, pl.TargetDuration)
				return
			}
			prevTarget = pl.TargetDuration
			maxPart := time.Duration(0)
			for i, seg := range pl.Segments {
				msn := pl.MediaSequence + pl.Skipped + i
				if r := roundEXTINF(seg.Duration); r > pl.TargetDuration {
					fail("target-duration", "too-small", "segment %d has EXTINF %v (rounds to %d) but EXT-X-TARGETDURATION is %d", msn, seg.Duration, r, pl.TargetDuration)
					return
				}
				var sum time.Duration
				for _, p := range seg.Parts {
					sum += p.Duration
					if p.Duration > maxPart {
						maxPart = p.Duration
					}
				}
				if seg.Gap {
					continue
				}
				si := segByMSN[msn]
				if si == nil {
					continue // not decoded (cannot happen for listed segments of the leading stream)
				}
				first, next := lt.units[si.first], lt.units[endOf[msn]]
				if lt.reorder && (!first.dtsKnown || !next.dtsKnown) {
					continue // B-frame stream: the decode time of a unit that was never decoded from a container is not known
				}
				want := spanDur(next.dts-first.dts, lt.clock)
				if durDiff(seg.Duration, want) > textRes {
					fail("extinf", "mismatch", "segment %d: EXTINF %v but its leading units %d..%d span %v", msn, seg.Duration, si.first, endOf[msn], want)
					return
				}
				if len(seg.Parts) > 0 {
					if durDiff(sum, seg.Duration) > time.Duration(len(seg.Parts)+1)*textRes/2 {
						fail("parts-sum", "mismatch", "segment %d: its %d parts add up to %v, EXTINF is %v", msn, len(seg.Parts), sum, seg.Duration)
						return
					}
				}
				if seg.DateTime != nil {
					wantT := time.Unix(0, first.ntpUnix)
					if d := seg.DateTime.Sub(wantT); d > time.Millisecond || d < -time.Millisecond {
						fail("program-date-time", "mismatch", "segment %d: EXT-X-PROGRAM-DATE-TIME %v, the wall-clock time written with its first unit (%d) is %v",
							msn, seg.DateTime.UTC().Format(time.RFC3339Nano), si.first, wantT.UTC().Format(time.RFC3339Nano))
						return
					}
					o.w.r.Probe("pdt-checked")
				}
				// cross-check with the decoded fragments: the sum of leading sample durations
				if cfg.isFMP4() && s == si.stream {
					var ticks int64
					for _, d := range a.segDec[lt.id] {
						if d.msn == msn {
							ticks += d.dur
						}
					}
					if durDiff(spanDur(ticks, lt.clock), seg.Duration) > textRes {
						fail("extinf", "vs-fragments", "segment %d: EXTINF %v but its decoded samples last %d ticks", msn, seg.Duration, ticks)
						return
					}
				}
			}
			allParts := []mPart{}
			for _, seg := range pl.Segments {
				allParts = append(allParts, seg.Parts...)
			}
			allParts = append(allParts, pl.TrailingParts...)
			for _, p := range pl.TrailingParts {
				if p.Duration > maxPart {
					maxPart = p.Duration
				}
			}
			for _, p := range allParts {
				n := uriNumber(p.URI)
				pr, ok := partRange[n]
				if !ok || pr.count == 0 {
					continue
				}
				nextIdx := pr.first + pr.count
				if nextIdx >= len(lt.units) {
					continue
				}
				if lt.reorder && (!lt.units[nextIdx].dtsKnown || !lt.units[pr.first].dtsKnown) {
					continue
				}
				want := spanDur(lt.units[nextIdx].dts-lt.units[pr.first].dts, lt.clock)
				if durDiff(p.Duration, want) > textRes {
					fail("part-duration", "mismatch", "part %d: DURATION %v but its leading units %d..%d span %v", n, p.Duration, pr.first, nextIdx, want)
					return
				}
				o.w.r.Probe("part-duration-checked")
			}
			if cfg.vname == "ll" {
				if !pl.HasPartInf {
					fail("part-target", "missing", "EXT-X-PART-INF missing")
					return
				}
				if maxPart > pl.PartTarget {
					fail("part-target", "too-small", "PART-TARGET %v is smaller than a listed part duration %v", pl.PartTarget, maxPart)
					return
				}
				if pl.PartHoldBack < 2*pl.PartTarget {
					fail("server-control", "part-hold-back", "PART-HOLD-BACK %v is less than twice PART-TARGET %v", pl.PartHoldBack, pl.PartTarget)
					return
				}
				if !pl.HasCanSkip || pl.CanSkipUntil < 6*time.Duration(pl.TargetDuration)*time.Second {
					fail("server-control", "can-skip-until", "CAN-SKIP-UNTIL %v is less than six times EXT-X-TARGETDURATION %d", pl.CanSkipUntil, pl.TargetDuration)
					return
				}
			}
		}
	}
}

// roundEXTINF rounds a listed duration to the nearest integer of seconds, half way cases up (the convention of the
// library itself and of the HLS validators).
func roundEXTINF(d time.Duration) int {
	return int((d + 500*time.Millisecond) / time.Second)
}
