package sim

import (
	"errors"
	"fmt"
	"io"
	"strings"
	"time"
)

// C12: the client always terminates cleanly: one error, no leaked goroutines.
// Fault position and Close position are swept exhaustively per sampled scenario.

var errOnTracks = errors.New("simulated OnTracks failure")

// the client's goroutines may be held for a few simulated nanoseconds each at instrumented points (order
// perturbation): what happens within this span of a delivery counts as happening at its instant
const sameInstant = 100 * time.Nanosecond

// the pending-request check of blackholed requests: a request that is never answered must not keep the client alive after Close
func c12Origin(r *Run) *stubOrigin {
	g := &originGen{containers: []string{"ts", "fmp4"}, modes: []string{"vod", "live", "event"}, minSegs: 3, maxSegs: 8,
		renditions: true, byteRanges: true, segDurMs: []int{500, 1000, 2000, 4000, 4000}, multiFrag: r.T.Chance(1, 2), noPDTChance: 3}
	o := genStubOrigin(r, g)
	for _, st := range o.streams {
		if st.mode != "vod" {
			st.endAfter = len(st.segs) // live streams end, so that EOS is reachable
		}
	}
	return o
}

func checkTermination(r *Run, w *cliWorld, faultFired string, faultStatus int, closed bool) {
	r.SettleHolds() // a Close at the very end of the run: goroutines held at an instrumented point still have to leave
	// the injected fault's error must be the one surfaced, unless something else ended the client first
	// (an error of another stream that occurred strictly before the faulty response reached the client)
	faultFirst := true
	// The value is the client's *first* fatal error; Wait yields it only after every routine has ended, which takes
	// simulated time when goroutines are being held at instrumented points. A response delivered no later than the
	// faulty one may have ended the client on its own account before (a playlist at the live edge: next segment not
	// listed yet; an init section after which the stream finds too few segments); at one instant the two race.
	if w.waitSeen && w.waitErr != nil {
		switch w.waitErr.Error() {
		case "next segment not found or not ready yet", "playback is too late", "there aren't enough segments to fill the buffer":
			faultAt := time.Duration(1 << 62)
			for _, nr := range w.net.log {
				if nr.fate != nil && nr.fate.fault != "" && nr.delivered && nr.deliveredAt < faultAt {
					faultAt = nr.deliveredAt
				}
			}
			for _, nr := range w.net.log {
				if nr.delivered && nr.fate.fault == "" && nr.deliveredAt <= w.waitAt && nr.deliveredAt <= faultAt+sameInstant {
					faultFirst = false
				}
			}
		}
	}
	for _, nr := range w.net.log {
		if nr.fate != nil && nr.fate.fault != "" && (!nr.delivered || nr.deliveredAt >= w.waitAt && w.waitSeen && nr.deliveredAt > w.waitAt) {
			faultFirst = false
		}
	}
	if !w.waitSeen {
		r.Fail("wait", "no-value", "Wait yielded nothing within the simulated time limit (fault=%q closed=%v)", faultFired, closed)
		return
	}
	if w.waitExtra > 0 {
		r.Fail("wait", "more-than-one", "Wait yielded %d values", 1+w.waitExtra)
		return
	}
	if w.waitErr == nil {
		r.Fail("wait", "nil-error", "Wait yielded a nil error")
		return
	}
	if gs := clientGoroutines(); len(gs) > 0 {
		first := strings.Split(gs[0], "\n")
		top := ""
		for _, l := range first {
			if strings.Contains(l, "gohlslib/v2.") {
				top = strings.TrimSpace(l)
				break
			}
		}
		r.Fail("goroutine-leak", leakKey(top), "%d client goroutine(s) still exist %v after Wait yielded %s; first:\n%s", len(gs), r.Now()-w.waitAt, describeErr(w.waitErr), gs[0])
		return
	}
	if w.cbAfterWait > 0 {
		r.Fail("callback-after-wait", "callback", "%d user callback(s) were invoked after Wait had yielded %s", w.cbAfterWait, describeErr(w.waitErr))
		return
	}
	switch faultFired {
	case "status":
		if faultFirst && !closedBefore(w) && !strings.Contains(w.waitErr.Error(), fmt.Sprintf("bad status code: %d", faultStatus)) {
			r.Fail("error-identity", "status", "request failed with status %d but Wait yielded %s", faultStatus, describeErr(w.waitErr))
		}
	case "transport":
		if faultFirst && !closedBefore(w) && !errors.Is(w.waitErr, errSimTransport) && !strings.Contains(w.waitErr.Error(), "simulated transport error") {
			r.Fail("error-identity", "transport", "the transport failed but Wait yielded %s", describeErr(w.waitErr))
		}
	case "truncate":
		// the connection was cut in the middle of a body whose length had been announced: an HTTP failure like any other
		if faultFirst && !closedBefore(w) && !errors.Is(w.waitErr, io.ErrUnexpectedEOF) && !strings.Contains(w.waitErr.Error(), "unexpected EOF") {
			r.Fail("error-identity", "truncate", "a response body ended before its announced length but Wait yielded %s", describeErr(w.waitErr))
		}
	case "ontracks":
		// while the user's OnTracks executes (it takes simulated time) a stream downloader may legitimately fail first
		legit := false
		switch w.waitErr.Error() {
		case "next segment not found or not ready yet", "playback is too late", "there aren't enough segments to fill the buffer":
			legit = true
		}
		if !closedBefore(w) && !legit && !errors.Is(w.waitErr, errOnTracks) {
			r.Fail("error-identity", "ontracks", "OnTracks returned an error but Wait yielded %s", describeErr(w.waitErr))
		}
	}
}

func closedBefore(w *cliWorld) bool { return w.closeCalls > 0 && w.closedFirst }

func leakKey(top string) string {
	if i := strings.Index(top, "gohlslib/v2."); i >= 0 {
		top = top[i+len("gohlslib/v2."):]
	}
	if i := strings.IndexByte(top, '('); i > 0 && strings.HasPrefix(top, "(") {
		// method: (*type).name(...)
		if j := strings.Index(top[1:], "("); j > 0 {
			top = top[:j+1]
		}
	} else if i > 0 {
		top = top[:i]
	}
	return top
}

// scC12Fault: one fault per run, placed at request index SweepPos%40, kind SweepPos/40.
func scC12Fault(r *Run) {
	T := r.T
	o := c12Origin(r)
	lat := Pick(T, 0, 10, 100)
	pos := r.SweepPos % 40
	kind := []string{"status", "transport", "stall", "ontracks", "blackhole", "truncate"}[(r.SweepPos/40)%6]
	status := Pick(T, 404, 500, 503, 403)
	status206 := T.Chance(1, 5)
	ctxErr := T.Chance(1, 3)
	if kind == "ontracks" && pos > 0 {
		return // the OnTracks fault has one position only
	}
	fired := ""
	var firedAt time.Duration
	fate := func(nr *netReq) *netFate {
		f := &netFate{latency: time.Duration(T.Range(0, lat)) * time.Millisecond, back: time.Duration(T.Range(0, lat)) * time.Millisecond}
		if nr.id == pos && kind != "ontracks" {
			f.fault, f.status = kind, status
			f.ctxError = ctxErr
			// 206 is what a ranged request may be answered with; for a playlist it is a failure like any other status
			if kind == "status" && status206 && strings.Contains(nr.url, ".m3u8") {
				f.status = 206
				status = 206
			}
			fired = kind
			firedAt = r.Now()
			r.FaultConf(kind)
		}
		return f
	}
	w := newCliWorld(r, o, o.primaryURL(), fate)
	w.onTracksDelay = time.Duration(Pick(T, 0, 0, 30, 300, 2000)) * time.Millisecond
	if kind == "ontracks" {
		w.onTracksErr = errOnTracks
		r.FaultConf("ontracks")
	}
	w.limit = 4 * time.Minute
	closeDelay := time.Duration(T.Range(1, 20)) * time.Second
	closed := false
	w.onEvent = func(ev int) {
		// a stalled body never ends by itself: the user closes the client some time later
		if (fired == "stall" || fired == "blackhole") && !closed && !w.waitSeen && r.Now() >= firedAt+closeDelay {
			closed = true
			r.Tracef("close after stall")
			w.closeClient()
		}
	}
	r.Tracef("origin container=%s mode=%s streams=%d fault=%s@%d lat=%d", o.streams[0].container, o.streams[0].mode, len(o.streams), kind, pos, lat)
	// the stall needs the scheduler to wake up for the Close
	if kind == "stall" || kind == "blackhole" {
		w.net.schedule(0, "custom", nil, func() {})
		for t := time.Second; t < w.limit; t += time.Second {
			w.net.schedule(t, "custom", nil, func() {})
		}
	}
	w.run()
	if kind == "ontracks" && w.onTracksN > 0 {
		fired = "ontracks"
		r.Fault("ontracks-error")
	}
	r.Tracef("end: fault-fired=%q wait=%v err=%s requests=%d", fired, w.waitSeen, describeErr(w.waitErr), len(w.net.log))
	if fired == "stall" && !closed {
		r.Tracef("stall: run ended before the close delay")
	}
	checkTermination(r, w, fired, status, closed)
	r.Stats.NonTrivial = fired != ""
	r.Cell("c12 fault=%s fired=%v", kind, fired != "")
	if fired != "" {
		r.Cell("c12 fault=%s at=%d", kind, min(pos, 20))
	}
	w.finish()
}

// scC12Close: Close at scheduler event SweepPos, optionally repeated and racing a fault.
func scC12Close(r *Run) { runC12Close(r, false) }

// scC12Handover: Close (or a fault) while the client's stages are handing work over to each other: the stream
// processor is held 50-300 ms of simulated time before every hand-over to a track processor (longer than a
// fragment plays, so that completions of the track processor pile up behind it), segments consist of several
// fragments, and Close arrives on a time grid across the whole playback.
func scC12Handover(r *Run) { runC12Close(r, true) }

func runC12Close(r *Run, handover bool) {
	T := r.T
	var o *stubOrigin
	if handover {
		g := &originGen{containers: []string{"fmp4", "fmp4", "ts"}, modes: []string{"vod", "vod", "event"}, minSegs: 3, maxSegs: 8,
			renditions: true, byteRanges: false, segDurMs: []int{500, 1000, 2000}, multiFrag: true, minFrags: 3, noPDTChance: 3}
		o = genStubOrigin(r, g)
		for _, st := range o.streams {
			if st.mode != "vod" {
				st.endAfter = len(st.segs)
			}
		}
	} else {
		o = c12Origin(r)
	}
	lat := Pick(T, 0, 10, 100)
	closeAt := r.SweepPos + 1
	nClose := Pick(T, 1, 1, 2, 3)
	faultPos := -1
	if T.Chance(1, 4) {
		faultPos = T.Range(0, 20)
	}
	faultKind := Pick(T, "status", "transport", "stall")
	fate := func(nr *netReq) *netFate {
		f := &netFate{latency: time.Duration(T.Range(0, lat)) * time.Millisecond, back: time.Duration(T.Range(0, lat)) * time.Millisecond}
		if nr.id == faultPos {
			f.fault, f.status = faultKind, 500
			r.FaultConf(faultKind)
		}
		return f
	}
	w := newCliWorld(r, o, o.primaryURL(), fate)
	w.onTracksDelay = time.Duration(Pick(T, 0, 0, 30, 300, 2000)) * time.Millisecond
	if handover {
		site := Pick(T, "client.processor.beforePush", "client.processor.beforePush", "client.processor.afterPull", "client.downloader.beforePush")
		hold := time.Duration(Pick(T, 50, 100, 300)) * time.Millisecond
		r.SetDelay(site, hold)
		r.Log("client", "0s (harness) goroutines passing %s are held %v", site, hold)
		w.onTracksDelay = 0
	}
	if faultKind != "stall" || faultPos < 0 {
		w.net.tr.ignoreCancel = T.Chance(1, 3) // swarm: some transports deliver what is in flight even after cancellation
	}
	w.limit = 4 * time.Minute
	closes := 0
	// half of the scenarios sweep the Close position over scheduler events, the other half over a time grid
	// (events are sparse while samples are being paced; a grid of 5..500 ms reaches the moments in between)
	grid := time.Duration(Pick(T, 0, 0, 0, 5, 23, 23, 100, 500)) * time.Millisecond
	if !handover && T.Chance(1, 5) {
		// Close called from inside the SweepPos-th user callback, on the client's own goroutine ("at any moment")
		grid = 0
		closeAt = 1 << 30
		w.closeAtCallback = r.SweepPos + 1
		r.Probe("close-from-callback-configured")
	}
	if handover {
		grid = time.Duration(Pick(T, 23, 37, 61)) * time.Millisecond // 200 sweep positions: the first 4.6-12 s of playback
	}
	if grid > 0 {
		at := time.Duration(r.SweepPos) * grid
		closeAt = 1 << 30
		for i := 0; i < nClose; i++ {
			w.net.schedule(at+time.Duration(i)*time.Millisecond, "custom", nil, func() {
				if closes < nClose {
					closes++
					r.Tracef("close #%d at %v (time grid %v, wait seen: %v)", closes, r.Now(), grid, w.waitSeen)
					r.Fault("close")
					w.closeClient()
				}
			})
		}
	}
	w.onEvent = func(ev int) {
		if ev >= closeAt && closes < nClose {
			closes++
			r.Tracef("close #%d at event %d (wait seen: %v)", closes, ev, w.waitSeen)
			r.Fault("close")
			w.closeClient()
		}
	}
	r.Tracef("origin container=%s mode=%s streams=%d closeAt=%d n=%d fault=%s@%d", o.streams[0].container, o.streams[0].mode, len(o.streams), closeAt, nClose, faultKind, faultPos)
	w.run()
	if closes == 0 {
		// the run ended before the close position: close after the end (after EOS)
		w.closeClient()
		w.closeClient()
		closes = 2
		r.Cell("c12 close-after-end")
		for i := 0; i < 3; i++ {
			syncWait()
			w.pollWait()
		}
		r.SettleHolds()
	}
	r.Tracef("end: wait=%v err=%s requests=%d closes=%d", w.waitSeen, describeErr(w.waitErr), len(w.net.log), closes)
	checkTermination(r, w, "", 0, true)
	// (with a transport that still delivers what is in flight after cancellation, shutting the pool down takes
	// simulated time: a fatal error taken before Close can then surface after it, so the identity of the value
	// says nothing about the order)
	// The value must be the termination error when Close came first and shutting down took no simulated time.
	// When the shutdown takes time (a transport that still delivers what is in flight, a user callback that is
	// executing), a fatal error taken before Close may surface after it and the value says nothing about the order.
	if !r.Failed() && closedBefore(w) && !isTerminated(w.waitErr) && !w.net.tr.ignoreCancel && w.waitAt == w.closedAt {
		// Close before any fatal error: the value must be the termination error
		r.Fail("error-identity", "close", "Close was called at %v, before Wait yielded at %v, but the value is %s", w.closedAt, w.waitAt, describeErr(w.waitErr))
	}
	r.Stats.NonTrivial = true
	phase := "after-wait"
	if closedBefore(w) {
		switch {
		case w.onTracksN == 0:
			phase = "before-tracks"
		case len(w.deliveries) > 0 && len(w.deliveries[0]) == 0:
			phase = "before-first-sample"
		default:
			phase = "streaming"
		}
	}
	r.Cell("c12 close phase=%s", phase)
	w.finish()
}

// scC12LLClose: Close (on a time grid) while the client plays a Low-Latency origin that publishes its parts much
// faster than they play: the downloader runs ahead and the queues between the client's stages fill up.
func scC12LLClose(r *Run) {
	T := r.T
	o := genLLOrigin(r, Pick(T, 0.02, 0.05, 0.2, 1.0))
	w := newCliWorld(r, o, o.primaryURL(), plainFate(T, Pick(T, 0, 2, 20)))
	o.net = w.net
	w.limit = 90 * time.Second
	grid := time.Duration(Pick(T, 11, 37, 101)) * time.Millisecond
	at := time.Duration(r.SweepPos) * grid
	closes := 0
	w.net.schedule(at, "custom", nil, func() {
		closes++
		r.Tracef("close at %v (wait seen: %v)", r.Now(), w.waitSeen)
		r.Fault("close")
		w.closeClient()
	})
	r.Tracef("ll origin style=%s parts=%d segs=%d closeAt=%v", o.style, len(o.parts), len(o.segParts), at)
	w.run()
	if closes == 0 {
		w.closeClient()
	}
	r.Tracef("end: wait=%v err=%s requests=%d", w.waitSeen, describeErr(w.waitErr), len(w.net.log))
	checkTermination(r, w, "", 0, true)
	r.Stats.NonTrivial = true
	w.finish()
}

func init() {
	register(&PropDef{ID: "C12", Quick: 40000, Thorough: 800000, Profiles: []ProfileDef{
		{Name: "fault-sweep", Share: 1, Sc: scC12Fault, Sweep: 240},
		{Name: "close-sweep", Share: 1, Sc: scC12Close, Sweep: 200},
		{Name: "handover", Share: 1, Sc: scC12Handover, Sweep: 200},
		{Name: "ll-close", Share: 1, Sc: scC12LLClose, Sweep: 200},
	}})
}
