package sim

import (
	"bytes"
	"testing"

	"github.com/bluenviron/mediacommon/v2/pkg/codecs/av1"
	"github.com/bluenviron/mediacommon/v2/pkg/codecs/h264"
	"github.com/bluenviron/mediacommon/v2/pkg/codecs/h265"
	"github.com/bluenviron/mediacommon/v2/pkg/codecs/opus"
	"github.com/bluenviron/mediacommon/v2/pkg/codecs/vp9"
)

// TestMediaGenerators validates the harness's bitstream generators against mediacommon's parsers.
func TestMediaGenerators(t *testing.T) {
	for k := 0; k < 16; k++ {
		p := videoParamVariant("h264", k)
		var sps h264.SPS
		if err := sps.Unmarshal(p.sps); err != nil {
			t.Fatalf("h264 sps %d: %v", k, err)
		}
		if sps.PicOrderCntType != 2 {
			t.Fatalf("poc type")
		}
		t.Logf("h264 #%d %dx%d fps=%v %x", k, sps.Width(), sps.Height(), sps.FPS(), p.sps)
		p5 := videoParamVariant("h265", k)
		var s5 h265.SPS
		if err := s5.Unmarshal(p5.sps); err != nil {
			t.Fatalf("h265 sps: %v", err)
		}
		if len(s5.MaxNumReorderPics) != 1 || s5.MaxNumReorderPics[0] != 0 {
			t.Fatalf("h265 reorder")
		}
		var pp h265.PPS
		if err := pp.Unmarshal(p5.pps); err != nil {
			t.Fatal(err)
		}
		pv := videoParamVariant("vp9", k)
		for _, key := range []bool{true, false} {
			f := vp9Frame(pv, key, []byte{1, 2, 3})
			var h vp9.Header
			if err := h.Unmarshal(f); err != nil {
				t.Fatalf("vp9 %d key=%v: %v", k, key, err)
			}
			if h.NonKeyFrame == key {
				t.Fatalf("vp9 key flag")
			}
			if key && (h.Width() != pv.vp9W || h.Height() != pv.vp9H || h.Profile != pv.vp9Profile || h.ColorConfig.ColorRange != pv.vp9Range) {
				t.Fatalf("vp9 fields %+v %+v", h, h.ColorConfig)
			}
			if key {
				t.Logf("vp9 #%d profile=%d sub=%d depth=%d", k, h.Profile, h.ChromaSubsampling(), h.ColorConfig.BitDepth)
			}
		}
		pa := videoParamVariant("av1", k)
		var sh av1.SequenceHeader
		if err := sh.Unmarshal(pa.seqHdr); err != nil {
			t.Fatalf("av1: %v", err)
		}
	}
	for c := 0; c < 32; c++ {
		pkt, d := opusPacket(c, 1, 2, 20)
		if got := opus.PacketDuration2(pkt); got != d {
			t.Fatalf("opus config %d: %d vs %d", c, got, d)
		}
	}
	d, pl := buildVideoUnit("av1", 0, 1, true, videoParamVariant("av1", 0), true, 20)
	bs, err := av1.Bitstream(d).Marshal()
	if err != nil || !bytes.Equal(bs, pl) {
		t.Fatalf("av1 bitstream %v", err)
	}
}
