package sim

import (
	"encoding/binary"
	"fmt"

	"github.com/bluenviron/gohlslib/v2"
	"github.com/bluenviron/gohlslib/v2/pkg/codecs"
	"github.com/bluenviron/mediacommon/v2/pkg/codecs/mpeg4audio"
)

// Minimal but syntactically sufficient bitstream generators for the muxer worlds.
// Every unit carries a unique tag (track, index) so that each decoded unit is
// attributable to exactly one write.

type bitW struct {
	b    []byte
	nbit int
}

func (w *bitW) bits(v uint64, n int) {
	for i := n - 1; i >= 0; i-- {
		if w.nbit%8 == 0 {
			w.b = append(w.b, 0)
		}
		if (v>>uint(i))&1 != 0 {
			w.b[len(w.b)-1] |= 1 << uint(7-w.nbit%8)
		}
		w.nbit++
	}
}

func (w *bitW) ue(v uint64) {
	v++
	n := 0
	for t := v; t > 1; t >>= 1 {
		n++
	}
	w.bits(0, n)
	w.bits(v, n+1)
}

func (w *bitW) trailing() {
	w.bits(1, 1)
	for w.nbit%8 != 0 {
		w.bits(0, 1)
	}
}

func addEPB(in []byte) []byte {
	out := make([]byte, 0, len(in)+4)
	zeros := 0
	for _, c := range in {
		if zeros >= 2 && c <= 3 {
			out = append(out, 3)
			zeros = 0
		}
		out = append(out, c)
		if c == 0 {
			zeros++
		} else {
			zeros = 0
		}
	}
	return out
}

// h264SPS builds a baseline-profile SPS with pic_order_cnt_type = 2 (DTS = PTS).
// fpsNum/fpsDen = 0 omits the VUI timing info.
func h264SPS(wMB, hMB int, level int, fpsNum, fpsDen uint32, reorder bool) []byte {
	w := &bitW{}
	if reorder {
		// Main profile, picture order count signalled in every slice header (type 0, 8-bit lsb): streams with
		// B-frames, whose decode order differs from their presentation order
		w.bits(77, 8)
		w.bits(0x40, 8)
		w.bits(uint64(level), 8)
		w.ue(0) // sps id
		w.ue(0) // log2_max_frame_num_minus4
		w.ue(0) // pic_order_cnt_type
		w.ue(4) // log2_max_pic_order_cnt_lsb_minus4
		w.ue(2) // max_num_ref_frames
	} else {
		w.bits(66, 8)   // profile_idc
		w.bits(0xc0, 8) // constraint flags
		w.bits(uint64(level), 8)
		w.ue(0) // sps id
		w.ue(0) // log2_max_frame_num_minus4
		w.ue(2) // pic_order_cnt_type
		w.ue(1) // max_num_ref_frames
	}
	w.bits(0, 1)
	w.ue(uint64(wMB - 1))
	w.ue(uint64(hMB - 1))
	w.bits(1, 1) // frame_mbs_only
	w.bits(1, 1) // direct_8x8
	w.bits(0, 1) // cropping
	if fpsNum != 0 {
		w.bits(1, 1)                 // vui present
		w.bits(0, 4)                 // aspect, overscan, video signal, chroma loc
		w.bits(1, 1)                 // timing info present
		w.bits(uint64(fpsDen), 32)   // num_units_in_tick
		w.bits(uint64(fpsNum)*2, 32) // time_scale
		w.bits(1, 1)                 // fixed frame rate
		w.bits(0, 4)                 // nal hrd, vcl hrd, pic struct, bitstream restriction
	} else {
		w.bits(0, 1)
	}
	w.trailing()
	return append([]byte{0x67}, addEPB(w.b)...)
}

// payload builds n bytes without zero bytes (safe for Annex-B) that embed a unique tag.
func taggedPayload(track, idx, n int) []byte {
	if n < 10 {
		n = 10
	}
	b := make([]byte, n)
	var tag [9]byte
	tag[0] = byte(track)
	binary.BigEndian.PutUint64(tag[1:], uint64(idx))
	// 9 tag bytes spread over 18 nibble-bytes would be long; use 0x10|nibble coding for idx only
	b[0] = 0x80 | byte(track&0x3f)
	v := uint32(idx)
	for i := 0; i < 8; i++ {
		b[1+i] = 0x10 | byte((v>>uint(28-4*i))&0xf)
	}
	x := uint32(track*2654435761) ^ uint32(idx*40503) ^ 0x9e3779b9
	for i := 9; i < n; i++ {
		x = x*1664525 + 1013904223
		c := byte(x >> 24)
		if c < 0x10 {
			c |= 0x10
		}
		b[i] = c
	}
	return b
}

// video parameter sets -------------------------------------------------------

type videoParams struct {
	// H264
	sps, pps []byte
	// H265
	vps     []byte
	h265Idx int // which of the captured parameter sets the variant is derived from
	// VP9
	vp9W, vp9H int
	vp9Profile uint8
	vp9Range   bool
	vp9SubX    bool // profile 1: 4:4:4 if false
	vp9Depth   uint8
	// AV1
	seqHdr []byte
	av1    *av1SeqHdrSpec // set for generated sequence headers
	desc   string
	// H264: picture order count type 0 (B-frames); slices then carry a parsable header
	reorder bool
}

var h265SPSs = [][]byte{
	{ // 1280x720, MaxNumReorderPics 0
		0x42, 0x01, 0x01, 0x04, 0x08, 0x00, 0x00, 0x03, 0x00, 0x98, 0x08, 0x00, 0x00, 0x03, 0x00, 0x00,
		0x5d, 0x90, 0x00, 0x50, 0x10, 0x05, 0xa2, 0x29, 0x4b, 0x74, 0x94, 0x98, 0x5f, 0xfe, 0x00, 0x02,
		0x00, 0x02, 0xd4, 0x04, 0x04, 0x04, 0x10, 0x00, 0x00, 0x03, 0x00, 0x10, 0x00, 0x00, 0x03, 0x01,
		0xe0, 0x80,
	},
	{ // nvenc 1920x1080
		0x42, 0x01, 0x01, 0x01, 0x40, 0x00, 0x00, 0x03, 0x00, 0x00, 0x03, 0x00, 0x00, 0x03, 0x00, 0x00,
		0x03, 0x00, 0x7b, 0xa0, 0x03, 0xc0, 0x80, 0x11, 0x07, 0xcb, 0x96, 0xb4, 0xa4, 0x25, 0x92, 0xe3,
		0x01, 0x6a, 0x02, 0x02, 0x02, 0x08, 0x00, 0x00, 0x03, 0x00, 0x08, 0x00, 0x00, 0x03, 0x01, 0xe3,
		0x00, 0x2e, 0xf2, 0x88, 0x00, 0x07, 0x27, 0x0c, 0x00, 0x00, 0x98, 0x96, 0x82,
	},
	{ // avigilon 3072x1728
		0x42, 0x01, 0x01, 0x01, 0x60, 0x00, 0x00, 0x03, 0x00, 0x80, 0x00, 0x00, 0x03, 0x00, 0x00, 0x03,
		0x00, 0x96, 0xa0, 0x01, 0x80, 0x20, 0x06, 0xc1, 0xfe, 0x36, 0xbb, 0xb5, 0x37, 0x77, 0x25, 0xd6,
		0x02, 0xdc, 0x04, 0x04, 0x04, 0x10, 0x00, 0x00, 0x3e, 0x80, 0x00, 0x04, 0x26, 0x87, 0x21, 0xde,
		0xe5, 0x10, 0x01, 0x6e, 0x20, 0x00, 0x66, 0xff, 0x00, 0x0b, 0x71, 0x00, 0x03, 0x37, 0xf8, 0x80,
	},
}

var h265PPS = []byte{0x44, 0x01, 0xc1, 0x72, 0xb4, 0x62, 0x40}

var av1SeqHdrs = [][]byte{
	{10, 11, 0, 0, 0, 66, 167, 191, 228, 96, 13, 0, 64},
	{10, 11, 0, 0, 0, 66, 167, 191, 230, 46, 223, 200, 66},
}

// videoParamVariant returns the k-th parameter-set variant of a codec.
func videoParamVariant(codec string, k int) *videoParams { return videoParamVariantR(codec, k, false) }

// videoParamVariantR: reorder selects (H264 only) parameter sets of a stream with B-frames.
func videoParamVariantR(codec string, k int, reorder bool) *videoParams {
	p := &videoParams{desc: fmt.Sprintf("%s#%d", codec, k)}
	switch codec {
	case "h264":
		dims := [][2]int{{120, 68}, {80, 45}, {40, 30}, {20, 15}}
		d := dims[k%len(dims)]
		fps := [][2]uint32{{30, 1}, {0, 0}, {25, 1}, {30000, 1001}}[k%4]
		p.sps = h264SPS(d[0], d[1], 30+(k/4)%3, fps[0], fps[1], reorder)
		p.reorder = reorder
		if reorder {
			p.desc += "b"
		}
		p.pps = []byte{0x68, 0xce, 0x38, byte(0x80 | (k/len(dims))&0x3f)}
	case "h265":
		p.sps = h265SPSs[k%len(h265SPSs)]
		p.h265Idx = k % len(h265SPSs)
		// further variants: the same parameter sets with general_tier_flag = 1 (High tier) or
		// general_profile_space = 1 (byte 3 of the NAL unit: profile_space(2) tier(1) profile_idc(5))
		switch (k / len(h265SPSs)) % 4 {
		case 1:
			p.sps = append([]byte(nil), p.sps...)
			p.sps[3] |= 0x20
		case 3:
			p.sps = append([]byte(nil), p.sps...)
			p.sps[3] |= 0x40
		case 2:
			// Range Extensions, 4:2:2 10 bit: general_profile_idc 4 with its compatibility flag and the constraint
			// flags max_12bit, max_10bit, max_422chroma, lower_bit_rate (the two chroma flags differ)
			raw := removeEPB(p.sps[2:])
			raw[1] = raw[1]&0xe0 | 4
			raw[2], raw[3], raw[4], raw[5] = 0x08, 0, 0, 0
			raw[6], raw[7], raw[8], raw[9], raw[10], raw[11] = 0x9d, 0x08, 0, 0, 0, 0
			p.sps = append([]byte{p.sps[0], p.sps[1]}, addEPB(raw)...)
		}
		p.pps = h265PPS
		p.vps = []byte{0x40, 0x01, 0x0c, 0x01, 0xff, 0xff, byte(0x10 + (k/len(h265SPSs))%8), 0x60}
	case "vp9":
		dims := [][2]int{{1920, 1080}, {1280, 720}, {640, 360}, {320, 180}}
		d := dims[k%len(dims)]
		p.vp9W, p.vp9H = d[0], d[1]
		p.vp9Profile = uint8((k / 4) % 3) // 0: 8 bit 4:2:0, 1: 8 bit 4:2:2, 2: 10 bit 4:2:0
		p.vp9Range = (k/12)%2 == 1
		p.vp9SubX = true
		p.vp9Depth = 8
		if p.vp9Profile == 2 {
			p.vp9Depth = 10
		}
	case "av1":
		if k%4 < 2 {
			p.seqHdr = av1SeqHdrs[k%len(av1SeqHdrs)]
			break
		}
		// generated sequence headers: levels, tiers, depths and colour descriptions the two captured ones lack
		colours := [][3]int{{1, 1, 1}, {9, 16, 9}, {9, 18, 9}, {1, 13, 6}, {5, 6, 5}}
		c := colours[(k/4)%len(colours)]
		a := &av1SeqHdrSpec{level: []int{8, 5, 12, 9}[(k/2)%4], tier: (k / 8) % 2, w: []int{1280, 1920, 640, 3840}[(k/2)%4], h: []int{720, 1080, 360, 2160}[(k/2)%4],
			depth: []int{8, 10}[(k/4)%2], csp: (k / 4) % 3, desc: (k/4)%3 != 0, cp: c[0], tc: c[1], mc: c[2], fullRange: (k/16)%2 == 1}
		if a.level <= 7 {
			a.tier = 0
		}
		p.seqHdr = av1SeqHdr(a)
		p.av1 = a
	}
	return p
}

// changeOneField derives parameter sets that differ from p in exactly one respect (one VP9 header field, only the
// PPS or only the SPS, only the VPS, ...): a comparison that forgets one field sees no change at all.
func changeOneField(codec string, p *videoParams, pick int) *videoParams {
	q := *p
	q.desc = p.desc + "'"
	switch codec {
	case "vp9":
		switch pick % 4 {
		case 0:
			q.vp9Range = !p.vp9Range
		case 1:
			// only the frame size, and only one of its two dimensions
			if pick%8 < 4 {
				q.vp9W = p.vp9W + 16
			} else {
				q.vp9H = p.vp9H + 16
			}
		case 2:
			// 8-bit 4:2:0 <-> 8-bit 4:2:2 (profile and chroma subsampling move together by definition)
			if p.vp9Profile == 1 {
				q.vp9Profile = 0
			} else {
				q.vp9Profile, q.vp9Depth = 1, 8
			}
		default:
			if p.vp9Profile == 2 {
				q.vp9Profile, q.vp9Depth = 0, 8
			} else {
				q.vp9Profile, q.vp9Depth = 2, 10
			}
		}
	case "h264":
		if pick%2 == 0 && p.pps != nil {
			q.pps = append([]byte(nil), p.pps...)
			q.pps[len(q.pps)-1] ^= 0x15
		} else {
			q.sps = append([]byte(nil), p.sps...)
			// level_idc (byte 3 of the NAL unit) among 30, 31, 32
			q.sps[3] = byte(30 + (int(p.sps[3])-30+1)%3)
		}
	case "h265":
		switch pick % 3 {
		case 0:
			q.vps = append([]byte(nil), p.vps...)
			q.vps[6] ^= 0x03
		case 1:
			q.sps = append([]byte(nil), p.sps...)
			q.sps[3] ^= 0x20 // general_tier_flag
		default:
			q.pps = append([]byte(nil), p.pps...)
			q.pps[len(q.pps)-1] ^= 0x80
		}
	case "av1":
		return videoParamVariant("av1", pick)
	}
	return &q
}

func (p *videoParams) equal(q *videoParams) bool {
	return string(p.sps) == string(q.sps) && string(p.pps) == string(q.pps) && string(p.vps) == string(q.vps) &&
		p.vp9W == q.vp9W && p.vp9H == q.vp9H && p.vp9Profile == q.vp9Profile && p.vp9Range == q.vp9Range && p.vp9Depth == q.vp9Depth &&
		string(p.seqHdr) == string(q.seqHdr)
}

func newVideoTrack(codec string, p *videoParams) *gohlslib.Track {
	t := &gohlslib.Track{ClockRate: 90000}
	switch codec {
	case "h264":
		t.Codec = &codecs.H264{SPS: p.sps, PPS: p.pps}
	case "h265":
		t.Codec = &codecs.H265{VPS: p.vps, SPS: p.sps, PPS: p.pps}
	case "vp9":
		sub := uint8(1)
		if p.vp9Profile == 1 {
			sub = 2
		}
		t.Codec = &codecs.VP9{Width: p.vp9W, Height: p.vp9H, Profile: p.vp9Profile, BitDepth: p.vp9Depth,
			ChromaSubsampling: sub, ColorRange: p.vp9Range}
	case "av1":
		t.Codec = &codecs.AV1{SequenceHeader: p.seqHdr}
	}
	return t
}

// vp9Frame builds a frame whose uncompressed header parses.
func vp9Frame(p *videoParams, key bool, payload []byte) []byte {
	w := &bitW{}
	w.bits(2, 2)
	w.bits(uint64(p.vp9Profile&1), 1)
	w.bits(uint64(p.vp9Profile>>1), 1)
	w.bits(0, 1) // show_existing_frame
	if key {
		w.bits(0, 1)
	} else {
		w.bits(1, 1)
	}
	w.bits(1, 1) // show_frame
	w.bits(0, 1) // error_resilient
	if key {
		w.bits(0x49, 8)
		w.bits(0x83, 8)
		w.bits(0x42, 8)
		if p.vp9Profile >= 2 {
			w.bits(0, 1) // ten_or_twelve_bit: 10 bit
		}
		w.bits(2, 3) // color space BT.709
		if p.vp9Range {
			w.bits(1, 1)
		} else {
			w.bits(0, 1)
		}
		if p.vp9Profile == 1 {
			// subsampling_x, subsampling_y, reserved: profile 1 must not be 4:2:0
			w.bits(1, 1)
			w.bits(0, 1)
			w.bits(0, 1)
		}
		w.bits(uint64(p.vp9W-1), 16)
		w.bits(uint64(p.vp9H-1), 16)
	}
	for w.nbit%8 != 0 {
		w.bits(0, 1)
	}
	return append(w.b, payload...)
}

func leb128(v int) []byte {
	var out []byte
	for {
		c := byte(v & 0x7f)
		v >>= 7
		if v != 0 {
			out = append(out, c|0x80)
		} else {
			out = append(out, c)
			return out
		}
	}
}

// av1SeqHdrSpec: what a generated AV1 sequence header declares (main profile, 4:2:0).
type av1SeqHdrSpec struct {
	level, tier int // seq_level_idx, seq_tier
	w, h        int
	depth       int // 8 or 10
	csp         int // chroma_sample_position 0..2
	desc        bool
	cp, tc, mc  int // colour primaries, transfer characteristics, matrix coefficients
	fullRange   bool
}

// codecString is the RFC 6381 / AV1-ISOBMFF form: av01.P.LLT.DD.M.CCC.cp.tc.mc.F
func (a *av1SeqHdrSpec) codecString() string {
	t := "M"
	if a.tier == 1 {
		t = "H"
	}
	cp, tc, mc, f := 1, 1, 1, 0
	if a.desc {
		cp, tc, mc = a.cp, a.tc, a.mc
		if a.fullRange {
			f = 1
		}
	}
	return fmt.Sprintf("av01.0.%02d%s.%02d.0.11%d.%02d.%02d.%02d.%d", a.level, t, a.depth, a.csp, cp, tc, mc, f)
}

// av1SeqHdr writes a sequence header OBU (AV1 bitstream specification 5.5) for the spec.
func av1SeqHdr(a *av1SeqHdrSpec) []byte {
	w := &bitW{}
	w.bits(0, 3)  // seq_profile
	w.bits(0, 1)  // still_picture
	w.bits(0, 1)  // reduced_still_picture_header
	w.bits(0, 1)  // timing_info_present_flag
	w.bits(0, 1)  // initial_display_delay_present_flag
	w.bits(0, 5)  // operating_points_cnt_minus_1
	w.bits(0, 12) // operating_point_idc[0]
	w.bits(uint64(a.level), 5)
	if a.level > 7 {
		w.bits(uint64(a.tier), 1)
	}
	w.bits(15, 4) // frame_width_bits_minus_1
	w.bits(15, 4) // frame_height_bits_minus_1
	w.bits(uint64(a.w-1), 16)
	w.bits(uint64(a.h-1), 16)
	w.bits(0, 1) // frame_id_numbers_present_flag
	w.bits(0, 1) // use_128x128_superblock
	w.bits(1, 1) // enable_filter_intra
	w.bits(1, 1) // enable_intra_edge_filter
	w.bits(0, 1) // enable_interintra_compound
	w.bits(0, 1) // enable_masked_compound
	w.bits(0, 1) // enable_warped_motion
	w.bits(0, 1) // enable_dual_filter
	w.bits(0, 1) // enable_order_hint
	w.bits(1, 1) // seq_choose_screen_content_tools
	w.bits(1, 1) // seq_choose_integer_mv
	w.bits(0, 1) // enable_superres
	w.bits(1, 1) // enable_cdef
	w.bits(0, 1) // enable_restoration
	// color_config
	if a.depth == 10 {
		w.bits(1, 1) // high_bitdepth
	} else {
		w.bits(0, 1)
	}
	w.bits(0, 1) // mono_chrome
	if a.desc {
		w.bits(1, 1)
		w.bits(uint64(a.cp), 8)
		w.bits(uint64(a.tc), 8)
		w.bits(uint64(a.mc), 8)
	} else {
		w.bits(0, 1)
	}
	if a.fullRange && a.desc {
		w.bits(1, 1) // color_range
	} else {
		w.bits(0, 1)
	}
	w.bits(uint64(a.csp), 2) // chroma_sample_position (profile 0: 4:2:0)
	w.bits(0, 1)             // separate_uv_delta_q
	w.bits(0, 1)             // film_grain_params_present
	w.trailing()
	return av1OBU(1, w.b)
}

func av1OBU(typ int, payload []byte) []byte {
	out := []byte{byte(typ<<3) | 2}
	out = append(out, leb128(len(payload))...)
	return append(out, payload...)
}

// unit is one written access unit (video: one Write call; audio: one AU/packet).
type unit struct {
	track   int
	idx     int // index within the track's written units
	call    int // index of the Write call that carried it
	dts     int64
	pts     int64
	ntpUnix int64 // nanoseconds
	ra      bool
	data    [][]byte // what is passed to Write* (video: NALUs/OBUs/frame; audio: the single AU)
	params  *videoParams
	carries bool     // carries in-band parameter sets
	sep     [][]byte // parameter sets written in a call of their own right before this unit (then not part of data)
	payload []byte   // expected container payload (fMP4 sample payload)
	// streams with B-frames: the decode time is whatever the library derives from the bitstream; it is taken from
	// the container the first time the unit is decoded there (dtsKnown) and every oracle works from that value
	dtsKnown bool
}

func avcc(nalus [][]byte) []byte {
	var out []byte
	for _, n := range nalus {
		var l [4]byte
		binary.BigEndian.PutUint32(l[:], uint32(len(n)))
		out = append(out, l[:]...)
		out = append(out, n...)
	}
	return out
}

// buildVideoUnit creates the data for one video access unit.
// slicePos places a picture of a stream with B-frames: its picture order count (relative to the last IDR),
// its frame_num, and whether it is a non-reference B picture.
type slicePos struct {
	poc, frameNum int
	b             bool
}

// h264SliceStart writes the beginning of a slice header as far as pic_order_cnt_lsb (what a timestamp
// extractor reads), for the parameter sets of h264SPS(reorder=true); the rest of the NAL unit is opaque.
func h264SliceStart(idr bool, sp slicePos) []byte {
	w := &bitW{}
	w.ue(0) // first_mb_in_slice
	switch {
	case idr:
		w.ue(7) // I
	case sp.b:
		w.ue(6) // B
	default:
		w.ue(5) // P
	}
	w.ue(0)                           // pic_parameter_set_id
	w.bits(uint64(sp.frameNum&15), 4) // frame_num
	if idr {
		w.ue(0) // idr_pic_id
	}
	w.bits(uint64(sp.poc&255), 8) // pic_order_cnt_lsb
	for w.nbit%8 != 0 {
		w.bits(1, 1)
	}
	return addEPB(w.b)
}

func buildVideoUnit(codec string, track, idx int, key bool, p *videoParams, inband bool, size int) (data [][]byte, payload []byte) {
	return buildVideoUnitAt(codec, track, idx, key, p, inband, size, slicePos{})
}

func buildVideoUnitAt(codec string, track, idx int, key bool, p *videoParams, inband bool, size int, sp slicePos) (data [][]byte, payload []byte) {
	body := taggedPayload(track, idx, size)
	switch codec {
	case "h264":
		if inband {
			data = append(data, p.sps)
			if p.pps != nil {
				data = append(data, p.pps)
			}
		}
		if p.reorder {
			body = append(h264SliceStart(key, sp), body...)
		}
		switch {
		case key:
			data = append(data, append([]byte{0x65}, body...))
		case sp.b:
			data = append(data, append([]byte{0x01}, body...)) // nal_ref_idc 0: not used for reference
		default:
			data = append(data, append([]byte{0x41}, body...))
		}
		payload = avcc(data)
	case "h265":
		if inband {
			data = append(data, p.vps, p.sps, p.pps)
		}
		if key {
			// IDR_W_RADL (19), IDR_N_LP (20) or CRA (21): all three are random-access pictures
			hdr := [][]byte{{0x26, 0x01}, {0x28, 0x01}, {0x2a, 0x01}}[idx%3]
			data = append(data, append(append([]byte(nil), hdr...), body...))
		} else {
			data = append(data, append([]byte{0x02, 0x01}, body...))
		}
		payload = avcc(data)
	case "vp9":
		f := vp9Frame(p, key, body)
		data = [][]byte{f}
		payload = f
	case "av1":
		if key {
			data = append(data, p.seqHdr)
		}
		data = append(data, av1OBU(6, body))
		for _, o := range data {
			payload = append(payload, o...)
		}
	}
	return
}

func paramNALUs(codec string, p *videoParams) [][]byte {
	if codec == "h265" {
		return [][]byte{p.vps, p.sps, p.pps}
	}
	if p.pps == nil {
		return [][]byte{p.sps}
	}
	return [][]byte{p.sps, p.pps}
}

func newAACTrack(sampleRate, channels int) *gohlslib.Track {
	return &gohlslib.Track{
		Codec: &codecs.MPEG4Audio{Config: mpeg4audio.Config{
			Type: mpeg4audio.ObjectTypeAACLC, SampleRate: sampleRate, ChannelCount: channels,
		}},
		ClockRate: sampleRate,
	}
}

func newOpusTrack(channels int) *gohlslib.Track {
	return &gohlslib.Track{Codec: &codecs.Opus{ChannelCount: channels}, ClockRate: 48000}
}

// opusFrameSamples is the duration (48 kHz samples) of one Opus frame for a TOC config
// (RFC 6716 section 3.1, table 2) - written from the RFC, not from mediacommon.
func opusFrameSamples(config int) int64 {
	switch {
	case config < 12:
		return []int64{480, 960, 1920, 2880}[config%4]
	case config < 16:
		return []int64{480, 960}[config%2]
	default:
		return []int64{120, 240, 480, 960}[config%4]
	}
}

// opusPacket builds a code-0 (one frame) packet with the given TOC config.
func opusPacket(config int, track, idx, size int) ([]byte, int64) {
	body := taggedPayload(track, idx, size)
	pkt := append([]byte{byte(config << 3)}, body...)
	return pkt, opusFrameSamples(config)
}
