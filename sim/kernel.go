// Package sim is the deterministic simulator ("dsim") for gohlslib.
//
// One run = one testing/synctest bubble. The root goroutine of the bubble is the
// scheduler; it is the only goroutine that makes choices, and every choice comes
// from the Tape. Harness tasks are real goroutines that execute closures handed
// to them by the scheduler and that can be parked at guarded yield hooks inside
// the library.
package sim

import (
	"fmt"
	"hash/fnv"
	"regexp"
	"runtime"
	"sort"
	"strconv"
	"strings"
	"sync"
	"sync/atomic"
	"testing"
	"testing/synctest"
	"time"
)

// ---------------------------------------------------------------------------
// Tape: the single source of choice.

type splitmix struct{ s uint64 }

func (g *splitmix) next() uint64 {
	g.s += 0x9e3779b97f4a7c15
	z := g.s
	z = (z ^ (z >> 30)) * 0xbf58476d1ce4e5b9
	z = (z ^ (z >> 27)) * 0x94d049bb133111eb
	return z ^ (z >> 31)
}

// Mix derives a per-run seed from (seed, property, profile, index).
func Mix(seed uint64, s string, i uint64) uint64 {
	h := fnv.New64a()
	h.Write([]byte(s))
	g := splitmix{s: seed ^ h.Sum64() ^ (i * 0xd6e8feb86659fd93)}
	g.next()
	return g.next()
}

// Tape records (generate mode) or replays (replay mode) every choice of a run.
// Entries are stored already reduced to their range, so that 0 is always the
// first/simplest option and shrinking can zero, drop or halve entries freely.
type Tape struct {
	Rec    []uint64
	pos    int
	replay bool
	rng    splitmix
}

func NewTape(seed uint64) *Tape { return &Tape{rng: splitmix{s: seed}} }

func ReplayTape(rec []uint64) *Tape {
	return &Tape{Rec: append([]uint64(nil), rec...), replay: true}
}

// Intn returns a choice in [0,n).
func (t *Tape) Intn(n int) int {
	if n <= 1 {
		// still consumes nothing: a forced choice is not a choice
		return 0
	}
	if t.replay {
		if t.pos >= len(t.Rec) {
			t.pos++
			return 0
		}
		v := t.Rec[t.pos] % uint64(n)
		t.pos++
		return int(v)
	}
	v := t.rng.next() % uint64(n)
	t.Rec = append(t.Rec, v)
	t.pos++
	return int(v)
}

// Range returns a choice in [lo,hi].
func (t *Tape) Range(lo, hi int) int {
	if hi <= lo {
		return lo
	}
	return lo + t.Intn(hi-lo+1)
}

// Chance returns true with probability num/den.
func (t *Tape) Chance(num, den int) bool {
	if num <= 0 {
		return false
	}
	if num >= den {
		return true
	}
	// true is encoded as non-zero so that a zeroed tape means "no".
	return t.Intn(den) >= den-num
}

// Pick returns one of the values.
func Pick[T any](t *Tape, vals ...T) T { return vals[t.Intn(len(vals))] }

// Consumed is the number of entries used so far.
func (t *Tape) Consumed() int { return t.pos }

// ---------------------------------------------------------------------------
// Violations, stats.

type Violation struct {
	Property string `json:"property"`
	Oracle   string `json:"oracle"`
	Key      string `json:"key"` // structural key used to match known findings
	Msg      string `json:"msg"`
}

func (v *Violation) String() string {
	return fmt.Sprintf("%s/%s[%s]: %s", v.Property, v.Oracle, v.Key, v.Msg)
}

// Stats of one run (merged by the worker).
type Stats struct {
	Steps      int
	SimNanos   int64
	Faults     map[string]int // fault kind -> times actually fired
	FaultsConf map[string]int // fault kind -> times configured
	Hooks      map[string]int // hook site -> times a task was parked there
	Probes     map[string]int // rare-branch probes
	Cells      map[string]struct{}
	Sig        uint64 // schedule/input signature
	NonTrivial bool
	Sample     any
}

func newStats() *Stats {
	return &Stats{
		Faults: map[string]int{}, FaultsConf: map[string]int{}, Hooks: map[string]int{},
		Probes: map[string]int{}, Cells: map[string]struct{}{},
	}
}

// ---------------------------------------------------------------------------
// Run, tasks, hooks.

type Run struct {
	Prop     string
	Profile  string
	Seed     uint64
	SweepPos int // position inside a sweep (fault_enumeration profiles), else 0
	T        *Tape
	Stats    *Stats

	trace    []string
	sigH     uint64
	viol     *Violation
	mu       sync.Mutex
	tasks    []*Task
	byGID    map[uint64]*Task
	armed    map[string]bool
	delays   map[string]time.Duration
	sleepers atomic.Int32
	// set once the client is being shut down (Close, an injected fault): the goroutines that are on their way out are
	// not held any more, so that the duration of the shutdown does not depend on how many more hand-overs the Go
	// runtime lets them perform before they notice the cancellation
	holdsOff atomic.Bool
	// RestBarrier, if set, is called by the scheduler whenever the run has come to rest
	RestBarrier func()
	maxHold     time.Duration
	start       time.Time
	roleLogs    map[string][]string
	cleanups    []func()
	afters      []func()
	// Scrub removes run-specific random strings (e.g. the muxer's URI prefix) from traces and messages.
	Scrub func(string) string
}

// Task is a harness goroutine that executes closures given by the scheduler.
type Task struct {
	Name string
	r    *Run
	work chan func()
	wake chan struct{}

	// NoHook tasks pass through armed hook sites (used for the harness's own probe requests)
	NoHook bool

	// guarded by r.mu
	busy     bool
	parkedAt string
	exited   bool
}

var stepCounter atomic.Int64 // read by the real-time watchdog

func gid() uint64 {
	var buf [64]byte
	n := runtime.Stack(buf[:], false)
	// "goroutine 123 ["
	s := string(buf[10:n])
	i := strings.IndexByte(s, ' ')
	if i < 0 {
		return 0
	}
	v, _ := strconv.ParseUint(s[:i], 10, 64)
	return v
}

// Go starts a harness task inside the bubble.
func (r *Run) Go(name string) *Task {
	t := &Task{Name: name, r: r, work: make(chan func()), wake: make(chan struct{})}
	ready := make(chan struct{})
	go func() {
		g := gid()
		r.mu.Lock()
		r.byGID[g] = t
		r.mu.Unlock()
		close(ready)
		defer func() {
			r.mu.Lock()
			delete(r.byGID, g)
			t.exited = true
			r.mu.Unlock()
		}()
		for fn := range t.work {
			fn()
			r.mu.Lock()
			t.busy = false
			r.mu.Unlock()
		}
	}()
	<-ready
	r.mu.Lock()
	r.tasks = append(r.tasks, t)
	r.mu.Unlock()
	return t
}

// Idle reports whether the task can be given a new operation (valid at rest).
func (t *Task) Idle() bool {
	t.r.mu.Lock()
	defer t.r.mu.Unlock()
	return !t.busy && !t.exited
}

// Parked returns the hook site the task is parked at ("" if none; valid at rest).
func (t *Task) Parked() string {
	t.r.mu.Lock()
	defer t.r.mu.Unlock()
	return t.parkedAt
}

// Blocked reports that the task is inside an operation but not parked at a hook,
// i.e. durably blocked inside the library (valid at rest).
func (t *Task) Blocked() bool {
	t.r.mu.Lock()
	defer t.r.mu.Unlock()
	return t.busy && t.parkedAt == ""
}

// Start hands an operation to an idle task and lets the system come to rest.
func (t *Task) Start(fn func()) {
	t.r.mu.Lock()
	if t.busy || t.exited {
		t.r.mu.Unlock()
		panic("sim: Start on busy task " + t.Name)
	}
	t.busy = true
	t.r.mu.Unlock()
	t.work <- fn
	synctest.Wait()
}

// StartNoWait hands an operation to an idle task without waiting for rest
// (used by the race tier to release several tasks in one burst).
func (t *Task) StartNoWait(fn func()) {
	t.r.mu.Lock()
	if t.busy || t.exited {
		t.r.mu.Unlock()
		panic("sim: Start on busy task " + t.Name)
	}
	t.busy = true
	t.r.mu.Unlock()
	t.work <- fn
}

// Resume releases a task parked at a hook and lets the system come to rest.
func (t *Task) Resume() {
	t.ResumeNoWait()
	synctest.Wait()
}

func (t *Task) ResumeNoWait() {
	t.r.mu.Lock()
	if t.parkedAt == "" {
		t.r.mu.Unlock()
		panic("sim: Resume on task that is not parked: " + t.Name)
	}
	t.parkedAt = ""
	t.r.mu.Unlock()
	t.wake <- struct{}{}
}

// Arm makes a hook site park harness tasks in this run.
func (r *Run) Arm(sites ...string) {
	r.mu.Lock()
	for _, s := range sites {
		r.armed[s] = true
	}
	r.mu.Unlock()
}

// SetDelay makes every passage of a library-owned goroutine through site take d of simulated time.
// Delays are fixed per site before the goroutines exist, so no choice is drawn inside them.
func (r *Run) SetDelay(site string, d time.Duration) {
	r.mu.Lock()
	if r.delays == nil {
		r.delays = map[string]time.Duration{}
	}
	r.delays[site] = d
	if d > r.maxHold && d >= time.Microsecond {
		r.maxHold = d
	}
	r.mu.Unlock()
}

// HoldsOff ends all holds of this run (a hold that is in progress runs out).
func (r *Run) HoldsOff() { r.holdsOff.Store(true) }

// MaxHold is the longest hold configured for this run (0: none).
func (r *Run) MaxHold() time.Duration {
	r.mu.Lock()
	defer r.mu.Unlock()
	return r.maxHold
}

// SettleHolds lets goroutines that are being held at an instrumented point (a delay of a microsecond or more) move
// on: simulated time advances by a few times the longest hold. No-op in runs without holds.
func (r *Run) SettleHolds() {
	r.mu.Lock()
	h := r.maxHold
	r.mu.Unlock()
	if h > 0 {
		time.Sleep(12 * h)
		syncWait()
	}
}

func (r *Run) Disarm(sites ...string) {
	r.mu.Lock()
	for _, s := range sites {
		delete(r.armed, s)
	}
	r.mu.Unlock()
}

func (r *Run) DisarmAll() {
	r.mu.Lock()
	r.armed = map[string]bool{}
	r.mu.Unlock()
}

// Hook is installed as the library's yield hook. It parks the calling goroutine
// if it is a harness task and the site is armed; anything else passes through.
func (r *Run) Hook(site string) {
	if site == "client.closing" {
		// the client has taken its first fatal error (or the cancellation) and begins to shut its routines down
		r.holdsOff.Store(true)
		return
	}
	r.mu.Lock()
	if d, ok := r.delays[site]; ok {
		// a goroutine the library started itself (never a harness task): it waits d of simulated time, which
		// orders it exactly against every other goroutine (the fake clock only moves when all are at rest)
		r.Stats.Hooks[site]++
		r.mu.Unlock()
		switch {
		case d >= time.Microsecond:
			// a hold: the goroutine stays here for a span the harness can act in (Close, deliveries); it counts as at rest.
			// Holds stop after the first 30 s of simulated time (a site passed once per sample would otherwise slow
			// the client down for the whole run).
			if time.Since(r.start) < 30*time.Second && !r.holdsOff.Load() {
				time.Sleep(d)
			}
		case d > 0:
			r.sleepers.Add(1)
			time.Sleep(d)
			r.sleepers.Add(-1)
		}
		return
	}
	if !r.armed[site] {
		r.mu.Unlock()
		return
	}
	t := r.byGID[gid()]
	if t == nil || t.NoHook {
		r.mu.Unlock()
		return
	}
	t.parkedAt = site
	r.Stats.Hooks[site]++
	r.mu.Unlock()
	<-t.wake
}

// ParkedTasks lists tasks parked at hooks, in creation order (valid at rest).
func (r *Run) ParkedTasks() []*Task {
	r.mu.Lock()
	defer r.mu.Unlock()
	var out []*Task
	for _, t := range r.tasks {
		if t.parkedAt != "" {
			out = append(out, t)
		}
	}
	return out
}

// Now is the simulated time since the start of the run.
// A resolution of 10 microseconds: the few nanoseconds that library goroutines spend in seeded delays (SetDelay) order
// them but are not part of any recorded instant.
func (r *Run) Now() time.Duration { return time.Since(r.start).Truncate(10 * time.Microsecond) }

// Tracef appends one line to the scheduler trace (scheduler goroutine only).
func (r *Run) Tracef(format string, a ...any) {
	s := fmt.Sprintf(format, a...)
	if r.Scrub != nil {
		s = r.Scrub(s)
	}
	line := fmt.Sprintf("%4d t=%-10v %s", r.Stats.Steps, r.Now(), s)
	r.trace = append(r.trace, line)
	h := fnv.New64a()
	var b [8]byte
	for i := 0; i < 8; i++ {
		b[i] = byte(r.sigH >> (8 * i))
	}
	h.Write(b[:])
	h.Write([]byte(s))
	r.sigH = h.Sum64()
}

// Sig mixes a string into the schedule/input signature without tracing it.
func (r *Run) Sig(s string) {
	h := fnv.New64a()
	var b [8]byte
	for i := 0; i < 8; i++ {
		b[i] = byte(r.sigH >> (8 * i))
	}
	h.Write(b[:])
	h.Write([]byte(s))
	r.sigH = h.Sum64()
}

// Log appends to a per-role log (any goroutine).
func (r *Run) Log(role, format string, a ...any) {
	s := fmt.Sprintf(format, a...)
	if r.Scrub != nil {
		s = r.Scrub(s)
	}
	r.mu.Lock()
	r.roleLogs[role] = append(r.roleLogs[role], s)
	r.mu.Unlock()
}

// Step marks one scheduler decision.
func (r *Run) Step() {
	r.Stats.Steps++
	stepCounter.Add(1)
}

func (r *Run) Cell(format string, a ...any) {
	r.Stats.Cells[fmt.Sprintf(format, a...)] = struct{}{}
}
func (r *Run) Probe(name string)     { r.Stats.Probes[name]++ }
func (r *Run) Fault(kind string)     { r.Stats.Faults[kind]++ }
func (r *Run) FaultConf(kind string) { r.Stats.FaultsConf[kind]++ }

// Fail records the first violation of the run.
func (r *Run) Fail(oracle, key, format string, a ...any) {
	if r.viol != nil {
		return
	}
	msg := fmt.Sprintf(format, a...)
	if r.Scrub != nil {
		msg, key = r.Scrub(msg), r.Scrub(key)
	}
	r.viol = &Violation{Property: r.Prop, Oracle: oracle, Key: key, Msg: msg}
	r.trace = append(r.trace, "VIOLATION "+r.viol.String())
}

func (r *Run) Failed() bool { return r.viol != nil }

// After registers a check that runs after the bubble has ended (outside of it,
// with the real clock) and may still call Fail.
func (r *Run) After(f func()) { r.afters = append(r.afters, f) }

// syncWait returns once every other goroutine of the bubble is at rest. A goroutine of the library that is being
// held for a few simulated nanoseconds at an instrumented point (SetDelay) is not at rest: the clock is moved
// forward one nanosecond at a time until none is left, so the delays decide order and nothing else.
func syncWait() {
	synctest.Wait()
	r := currentRun.Load()
	if r == nil {
		return
	}
	for i := 0; r.sleepers.Load() > 0 && i < 100000; i++ {
		time.Sleep(time.Nanosecond)
		synctest.Wait()
	}
	// what other goroutines of the harness wrote under a world's mutex before they came to rest is read by the
	// scheduler without it: taking and releasing that mutex here orders the two for the race detector as well
	if b := r.RestBarrier; b != nil {
		b()
	}
}

// Cleanup registers a function run after the bubble (outside of it).
func (r *Run) Cleanup(f func()) { r.cleanups = append(r.cleanups, f) }

// Action is one enabled scheduler decision.
type Action struct {
	Name   string
	Weight int
	Do     func()
}

// Choose picks one action by weight from the tape, traces it and performs it.
func (r *Run) Choose(acts []Action) {
	total := 0
	for _, a := range acts {
		if a.Weight <= 0 {
			panic("sim: non-positive weight for " + a.Name)
		}
		total += a.Weight
	}
	v := r.T.Intn(total)
	for _, a := range acts {
		if v < a.Weight {
			r.Step()
			r.Tracef("%s", a.Name)
			a.Do()
			return
		}
		v -= a.Weight
	}
}

// StopTasks lets every idle task exit. Tasks that are still busy are left (they
// are reported by the caller as stuck if that matters).
func (r *Run) StopTasks() {
	r.mu.Lock()
	ts := append([]*Task(nil), r.tasks...)
	r.mu.Unlock()
	for _, t := range ts {
		r.mu.Lock()
		idle := !t.busy && !t.exited
		r.mu.Unlock()
		if idle {
			close(t.work)
		}
	}
	synctest.Wait()
}

// ---------------------------------------------------------------------------
// Running one bubble.

// Result of one run.
type Result struct {
	Viol      *Violation
	Tape      []uint64
	Trace     []string
	Stats     *Stats
	LogHash   string
	RoleLogs  map[string][]string
	Leaked    bool   // goroutines were left blocked at bubble end
	HarnessEr string // harness-level panic (infrastructure error)
}

var libFrame = regexp.MustCompile(`github\.com/bluenviron/gohlslib/v2(?:/pkg/\w+)?\.(\(?\*?[\w.]+\)?[\w.]*)\(`)

// Scenario is the body of a run, executed as the scheduler goroutine.
type Scenario func(r *Run)

// HookInstaller installs/uninstalls the library hooks for a run.
var HookInstaller func(h func(site string))

var currentRun atomic.Pointer[Run]

// Execute runs one scenario in a fresh bubble.
func Execute(t *testing.T, prop, profile string, seed uint64, tape *Tape, sc Scenario) (res *Result) {
	return ExecuteSweep(t, prop, profile, seed, 0, tape, sc)
}

// ExecuteSweep is Execute with a sweep position.
func ExecuteSweep(t *testing.T, prop, profile string, seed uint64, sweepPos int, tape *Tape, sc Scenario) (res *Result) {
	r := &Run{
		Prop: prop, Profile: profile, Seed: seed, SweepPos: sweepPos, T: tape, Stats: newStats(),
		byGID: map[uint64]*Task{}, armed: map[string]bool{}, roleLogs: map[string][]string{},
	}
	res = &Result{}
	currentRun.Store(r)
	if HookInstaller != nil {
		HookInstaller(r.Hook)
	}
	defer func() {
		if HookInstaller != nil {
			HookInstaller(nil)
		}
		currentRun.Store(nil)
		for _, f := range r.cleanups {
			f()
		}
	}()
	func() {
		defer func() {
			if p := recover(); p != nil {
				msg := fmt.Sprint(p)
				if strings.Contains(msg, "blocked goroutines remain") {
					res.Leaked = true
					return
				}
				if strings.Contains(msg, "all goroutines in bubble are blocked") {
					// every goroutine of the run, the scheduler included, waits for another one and no timer is
					// pending: a call into the library never returns (the harness itself only waits inside such
					// calls or for timers). The key is the library function the deepest waiting goroutine sits in.
					all := make([]byte, 1<<20)
					all = all[:runtime.Stack(all, true)]
					key, excerpt := "unknown", ""
					for _, g := range strings.Split(string(all), "\n\n") {
						if !strings.Contains(g, "synctest bubble") {
							continue
						}
						if m := libFrame.FindStringSubmatch(g); m != nil {
							if key == "unknown" || strings.Contains(g, "verifsim.") {
								key = m[1]
								excerpt = g
							}
						}
					}
					if len(excerpt) > 1500 {
						excerpt = excerpt[:1500]
					}
					r.Fail("deadlock", key, "every goroutine of the run is blocked and no timer is pending: a call into the library can never return; one of the goroutines:\n%s", excerpt)
					return
				}
				buf := make([]byte, 1<<16)
				n := runtime.Stack(buf, false)
				res.HarnessEr = msg + "\n" + string(buf[:n])
			}
		}()
		synctest.Test(t, func(t *testing.T) {
			r.start = time.Now()
			defer func() {
				if p := recover(); p != nil {
					buf := make([]byte, 1<<16)
					n := runtime.Stack(buf, false)
					res.HarnessEr = fmt.Sprint(p) + "\n" + string(buf[:n])
				}
			}()
			sc(r)
			r.Stats.SimNanos = int64(r.Now())
		})
	}()
	if res.HarnessEr == "" {
		for _, f := range r.afters {
			f()
		}
	}
	res.Viol = r.viol
	res.Tape = append([]uint64(nil), tape.Rec...)
	if tape.replay && tape.pos < len(res.Tape) {
		res.Tape = res.Tape[:tape.pos]
	}
	res.Trace = r.trace
	r.Stats.Sig = r.sigH
	res.Stats = r.Stats
	res.RoleLogs = r.roleLogs
	res.LogHash = hashLogs(r.trace, r.roleLogs)
	return res
}

func hashLogs(trace []string, roles map[string][]string) string {
	h := fnv.New64a()
	for _, l := range trace {
		h.Write([]byte(l))
		h.Write([]byte{'\n'})
	}
	names := make([]string, 0, len(roles))
	for k := range roles {
		names = append(names, k)
	}
	sort.Strings(names)
	for _, k := range names {
		h.Write([]byte("#" + k + "\n"))
		// lines of one role may come from several goroutines that ran at the same simulated instant:
		// the canonical form of a role log is its sorted multiset of lines
		lines := append([]string(nil), roles[k]...)
		sort.Strings(lines)
		for _, l := range lines {
			h.Write([]byte(l))
			h.Write([]byte{'\n'})
		}
	}
	return fmt.Sprintf("%016x", h.Sum64())
}

// ---------------------------------------------------------------------------
// Shrinking (delta debugging over the tape).

// Shrink minimises a failing tape while the same oracle keeps failing.
func Shrink(t *testing.T, prop, profile string, seed uint64, sweepPos int, tape []uint64, sc Scenario,
	oracle string, maxRuns int, budget time.Duration,
) ([]uint64, int) {
	deadline := time.Now().Add(budget)
	runs := 0
	fails := func(c []uint64) bool {
		if runs >= maxRuns || time.Now().After(deadline) {
			return false
		}
		runs++
		res := ExecuteSweep(t, prop, profile, seed, sweepPos, ReplayTape(c), sc)
		return res.HarnessEr == "" && res.Viol != nil && res.Viol.Oracle == oracle
	}
	cur := append([]uint64(nil), tape...)
	// 1. truncate the tail (exhausted tape yields 0)
	for n := len(cur) / 2; n >= 1; n /= 2 {
		for len(cur) > n {
			c := cur[:len(cur)-n]
			if fails(c) {
				cur = append([]uint64(nil), c...)
			} else {
				break
			}
		}
	}
	// 2. drop chunks
	for n := len(cur) / 2; n >= 1; n /= 2 {
		for i := 0; i+n <= len(cur); {
			c := append(append([]uint64(nil), cur[:i]...), cur[i+n:]...)
			if fails(c) {
				cur = c
			} else {
				i += n
			}
		}
	}
	// 3. zero chunks, then halve single entries
	for n := len(cur) / 2; n >= 1; n /= 2 {
		for i := 0; i+n <= len(cur); i += n {
			allZero := true
			for _, v := range cur[i : i+n] {
				if v != 0 {
					allZero = false
				}
			}
			if allZero {
				continue
			}
			c := append([]uint64(nil), cur...)
			for j := i; j < i+n; j++ {
				c[j] = 0
			}
			if fails(c) {
				cur = c
			}
		}
	}
	for i := range cur {
		for cur[i] > 0 {
			c := append([]uint64(nil), cur...)
			c[i] = cur[i] / 2
			if fails(c) {
				cur = c
			} else {
				break
			}
		}
	}
	// strip trailing zeros (exhausted tape = 0)
	for len(cur) > 0 && cur[len(cur)-1] == 0 {
		cur = cur[:len(cur)-1]
	}
	return cur, runs
}
