package sim

import (
	"bytes"
	"fmt"
	"github.com/bluenviron/mediacommon/v2/pkg/formats/fmp4"
	"runtime"
	"strings"
	"sync/atomic"
)

// scMuxBurst: the writer (whole script, back to back) and 2-4 readers run truly concurrently in one step; the
// readers loop over playlist -> init -> newest listed segment of a stream as fast as they can. True concurrency
// reaches the windows inside a rotation that carry no yield hook. Judged at rest, from what each reader saw:
//
//	C02 (mode "init"): the init section fetched after a playlist is never older than the parameters the newest
//	     segment listed in that playlist was encoded with (the init only ever moves forward, at the cut itself).
//	C16 (mode "index"): every reader requests the multivariant playlist with a query of its own; every URI in the
//	     answer carries exactly that query.
//	C05 (mode "parts"): Low-Latency, mostly Directory storage; every part a playlist lists is fetched at once: status
//	     200 and the same bytes as before, unless its segment has left the window meanwhile.
//	C03 (mode "target"): every playlist satisfies TARGETDURATION >= round(EXTINF) for every listed segment, and
//	     per reader TARGETDURATION never decreases. The user's OnEncodeError callback takes its time (it spins),
//	     which widens any window around it.
func scMuxBurst(mode string) Scenario {
	return func(r *Run) {
		T := r.T
		g := &muxGen{variants: []string{"fmp4", "ll"}, minCalls: 300, maxCalls: 1200, fastRotation: true, forceVideo: true}
		if mode == "init" {
			g.paramChanges = true
			g.paramChangeDen = Pick(T, 1, 2, 3)
			g.h26xOnly = true
		} else if mode == "parts" {
			g.variants = []string{"ll"}
			g.forceVideo = T.Chance(1, 2)
		} else if mode == "index" {
			g.paramChanges = T.Chance(1, 3)
			g.forceVideo = T.Chance(1, 2)
		} else {
			g.variants = allVariants
			g.paramChanges = T.Chance(1, 3)
		}
		cfg := genMuxCfg(r, g)
		if mode == "parts" && T.Chance(3, 4) {
			cfg.disk = true
		}
		script := genScript(r, cfg, g)
		w, err := newMuxWorld(r, cfg, script)
		if err != nil {
			r.Probe("start-error")
			return
		}
		spin := Pick(T, 0, 50, 500, 3000)
		w.onEncodeError = func() {
			for i := 0; i < spin; i++ {
				runtime.Gosched()
			}
		}
		lt := cfg.leadingTrack()
		uris := guessStreamURIs(cfg)
		lead := uris[0]
		for i, ts := range cfg.tracks {
			if ts == lt && cfg.vname != "mpegts" {
				lead = uris[i]
			}
		}
		nReaders := T.Range(2, 4)
		r.Tracef("config %s calls=%d readers=%d spin=%d mode=%s", cfg, len(script), nReaders, spin, mode)
		byPay := map[string]*unit{}
		for _, u := range lt.units {
			byPay[string(u.payload)] = u
		}
		type triple struct {
			pl   *mediaPL
			init []byte
			seg  []byte
			uri  string
		}
		var done atomic.Bool
		partSeen := make([]map[string][]byte, nReaders)
		partBad := make([]string, nReaders)
		partOK := make([]int, nReaders)
		idxBad := make([]string, nReaders)
		idxOK := make([]int, nReaders)
		for i := range partSeen {
			partSeen[i] = map[string][]byte{}
		}
		results := make([][]triple, nReaders)
		var readers []*Task
		for i := 0; i < nReaders; i++ {
			readers = append(readers, w.newClient(fmt.Sprintf("reader%d", i)))
		}
		r.Step()
		w.next = len(script)
		w.writer.StartNoWait(func() {
			for _, cl := range script {
				if cl.err = w.doWrite(cl); cl.err != nil {
					break
				}
				cl.done = true
			}
			done.Store(true)
		})
		for i, t := range readers {
			i := i
			t.StartNoWait(func() {
				for !done.Load() && len(results[i]) < 4000 {
					if mode == "index" {
						// the multivariant playlist, each reader with a query of its own: the muxer repeats the query of
						// the request in every URI it writes, and only that one
						own := fmt.Sprintf("tok=r%d", i)
						ir := w.directGet("index.m3u8?" + own)
						if ir.effStatus() != 200 || len(ir.body) == 0 {
							continue
						}
						idxOK[i]++
						mp, err := parseMultivariant(ir.body)
						if err != nil {
							if idxBad[i] == "" {
								idxBad[i] = fmt.Sprintf("multivariant playlist does not parse: %v", err)
							}
							continue
						}
						var uris []string
						for _, v := range mp.Variants {
							uris = append(uris, v.URI)
						}
						for _, rd := range mp.Renditions {
							if rd.HasURI {
								uris = append(uris, rd.URI)
							}
						}
						for _, u := range uris {
							q := ""
							if k := strings.IndexByte(u, '?'); k >= 0 {
								q = u[k+1:]
							}
							if q != own && idxBad[i] == "" {
								idxBad[i] = fmt.Sprintf("index.m3u8?%s lists %s: the query of another request (or none)", own, u)
							}
						}
						results[i] = append(results[i], triple{})
						continue
					}
					resp := w.directGet(lead)
					if resp.effStatus() != 200 || len(resp.body) == 0 {
						continue
					}
					pl, err := parseMediaPlaylist(resp.body)
					if err != nil {
						continue
					}
					tr := triple{pl: pl}
					if mode == "parts" {
						// every part the playlist lists (under its last segments and of the open one)
						type lp struct {
							uri string
							msn int
						}
						var listed []lp
						for k, sg := range pl.Segments {
							for _, p := range sg.Parts {
								listed = append(listed, lp{stripQuery(p.URI), pl.MediaSequence + k})
							}
						}
						for _, p := range pl.TrailingParts {
							listed = append(listed, lp{stripQuery(p.URI), pl.MediaSequence + len(pl.Segments)})
						}
						// the hinted part (the request is held until it is complete): what it returns is what the URI
						// returns from then on
						if pl.HasPreload && len(results[i])%3 == 0 {
							if hr := w.directGet(stripQuery(pl.PreloadHint)); hr.effStatus() == 200 && len(hr.body) > 0 {
								if old, ok := partSeen[i][stripQuery(pl.PreloadHint)]; ok && !bytes.Equal(old, hr.body) && partBad[i] == "" {
									partBad[i] = fmt.Sprintf("preload hint %s returned %d bytes, the same URI returned %d other bytes before", pl.PreloadHint, len(hr.body), len(old))
								}
								partSeen[i][stripQuery(pl.PreloadHint)] = hr.body
							}
						}
						for _, p := range listed {
							pr := w.directGet(p.uri)
							if pr.effStatus() == 200 && len(pr.body) > 0 {
								if old, ok := partSeen[i][p.uri]; ok && !bytes.Equal(old, pr.body) && partBad[i] == "" {
									partBad[i] = fmt.Sprintf("part %s returned %d bytes, earlier %d other bytes", p.uri, len(pr.body), len(old))
								}
								partSeen[i][p.uri] = pr.body
								partOK[i]++
								continue
							}
							// not served: legitimate only if its segment has left the window meanwhile
							again := w.directGet(lead)
							if again.effStatus() != 200 {
								continue
							}
							pl2, err := parseMediaPlaylist(again.body)
							if err != nil {
								continue
							}
							if p.msn >= pl2.MediaSequence && partBad[i] == "" {
								partBad[i] = fmt.Sprintf("part %s (media sequence %d) was listed, answered status %d with %d bytes, and its segment is still in the window (%d..) afterwards",
									p.uri, p.msn, pr.effStatus(), len(pr.body), pl2.MediaSequence)
							}
						}
					}
					if mode == "init" && pl.HasMap {
						if ir := w.directGet(stripQuery(pl.MapURI)); ir.effStatus() == 200 {
							tr.init = ir.body
						}
						for k := len(pl.Segments) - 1; k >= 0; k-- {
							if !pl.Segments[k].Gap {
								tr.uri = stripQuery(pl.Segments[k].URI)
								if sr := w.directGet(tr.uri); sr.effStatus() == 200 {
									tr.seg = sr.body
								}
								break
							}
						}
					}
					results[i] = append(results[i], tr)
				}
			})
		}
		syncWait()
		// parameter epochs of the leading track, in writing order
		epochOf := map[int]int{}
		var epochs []*videoParams
		cur := lt.initial
		epochs = append(epochs, cur)
		for _, u := range lt.units {
			if u.carries && u.params != nil && !u.params.equal(cur) {
				cur = u.params
				epochs = append(epochs, cur)
			}
			epochOf[u.idx] = len(epochs) - 1
		}
		for i := range idxBad {
			if idxBad[i] != "" {
				r.Fail("uris", "foreign-query", "reader %d: %s", i, idxBad[i])
				break
			}
			if idxOK[i] > 0 {
				r.Probe("burst-multivariant-checked")
			}
		}
		for i := range partBad {
			if partBad[i] != "" {
				r.Fail("fetch", "listed-part-under-load", "reader %d: %s", i, partBad[i])
				break
			}
			if partOK[i] > 0 {
				r.Probe("burst-listed-part-fetched")
			}
		}
		for i, rs := range results {
			prevTD := -1
			for _, tr := range rs {
				if mode == "target" && tr.pl != nil {
					for k, sg := range tr.pl.Segments {
						if sg.Gap {
							continue
						}
						if rounded := roundEXTINF(sg.Duration); rounded > tr.pl.TargetDuration {
							r.Fail("target-duration", "below-extinf", "reader %d: a playlist of %s lists segment %d with EXTINF %v under EXT-X-TARGETDURATION:%d", i, lead, tr.pl.MediaSequence+k, sg.Duration, tr.pl.TargetDuration)
							break
						}
					}
					if tr.pl.TargetDuration < prevTD {
						r.Fail("target-duration", "decreased", "reader %d: EXT-X-TARGETDURATION of %s went from %d to %d", i, lead, prevTD, tr.pl.TargetDuration)
					}
					prevTD = tr.pl.TargetDuration
				}
				if mode == "init" && tr.init != nil && tr.seg != nil && !r.Failed() {
					in, err := decodeInit(tr.init)
					if err != nil || len(in.Tracks) != 1 {
						r.Fail("init", "decode", "init fetched concurrently does not decode: %v", err)
						break
					}
					smp, err := fmp4FirstSample(tr.seg)
					if err != nil {
						continue
					}
					u := byPay[string(smp)]
					if u == nil {
						continue // judged by C01
					}
					segEpoch := epochOf[u.idx]
					initEpoch := -1
					for e, p := range epochs {
						if ok, _ := initMatchesParams(lt.kind, in.Tracks[0].Codec, p); ok {
							initEpoch = e
						}
					}
					if initEpoch < 0 {
						continue // judged by C02's sequential oracle
					}
					r.Probe("burst-init-vs-segment-checked")
					if initEpoch < segEpoch {
						r.Fail("init", "older-than-listed-segment", "reader %d: a playlist listed %s (leading unit %d, encoded with %s) and the init section fetched right after it still carried %s",
							i, tr.uri, u.idx, epochs[segEpoch].desc, epochs[initEpoch].desc)
						break
					}
				}
			}
			if len(rs) > 10 {
				r.Probe("reader-made-progress")
			}
			if r.Failed() {
				break
			}
		}
		r.Stats.NonTrivial = true
		w.finish()
	}
}

// fmp4FirstSample returns the payload of the first sample of the first track of the first fragment.
func fmp4FirstSample(b []byte) ([]byte, error) {
	var parts fmp4.Parts
	if err := parts.Unmarshal(b); err != nil {
		return nil, err
	}
	for _, p := range parts {
		for _, t := range p.Tracks {
			for _, s := range t.Samples {
				return s.Payload, nil
			}
		}
	}
	return nil, fmt.Errorf("no sample")
}
