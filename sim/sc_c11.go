package sim

import (
	"errors"
	"fmt"
	"net/url"
	"strings"
	"time"

	"github.com/bluenviron/gohlslib/v2"
)

// C11: the client fetches segments consecutively, exactly once, from the right start.

func plainFate(T *Tape, maxLatMs int) func(nr *netReq) *netFate {
	return func(nr *netReq) *netFate {
		return &netFate{latency: time.Duration(T.Range(0, maxLatMs)) * time.Millisecond, back: time.Duration(T.Range(0, maxLatMs)) * time.Millisecond}
	}
}

// classify a logged request against the origin's resources of one stream
func (st *sStream) classify(nr *netReq) (kind string, seg *sSeg) {
	u := nr.req.URL
	if sameResource(u, st.plURL) {
		return "playlist", nil
	}
	res := func(ref string) *url.URL {
		r, err := url.Parse(ref)
		if err != nil {
			return nil
		}
		return st.plURL.ResolveReference(r)
	}
	if st.initURI != "" {
		if iu := res(st.initURI); iu != nil && iu.String() == u.String() {
			return "init", nil
		}
	}
	for _, sg := range st.segs {
		su := res(sg.uri)
		if su == nil || su.String() != u.String() {
			continue
		}
		if !sg.hasBR {
			return "segment", sg
		}
		// same blob: identify by Range
		s, e, ok := parseRange(nr.rng)
		if ok && s == sg.brStart && e == sg.brStart+sg.brLen-1 {
			return "segment", sg
		}
	}
	return "", nil
}

// oracleC11 replays the statement's rule over the request log and the playlist states served.
func oracleC11(r *Run, w *cliWorld, o *stubOrigin) {
	anyStop := false
	var notAtEnd []string
	for si, st := range o.streams {
		// requests of this stream in the order the client issued them
		type ev struct {
			kind string
			seg  *sSeg
			nr   *netReq
		}
		var evs []ev
		for _, nr := range w.net.log {
			if k, sg := st.classify(nr); k != "" {
				evs = append(evs, ev{k, sg, nr})
			} else if u := nr.req.URL; strings.Contains(u.Path, "/"+st.name+"_") {
				// a request that targets this stream's media but matches no advertised URL/range
				r.Fail("request", "unadvertised", "stream %s: the client requested %s (Range %q), which no playlist advertised", st.name, nr.url, nr.rng)
				return
			}
		}
		// the playlist states in serving order; the media-playlist-as-primary case has one serve for the primary
		served := st.served
		pi := 0 // index of the next unconsumed served state
		cur := -1
		var state *servedPL
		expectErr := ""
		vod := st.plType == "VOD"
		segSeen := map[int]int{}
		initSeen := 0
		awaitingPlaylist := true
		for _, e := range evs {
			switch e.kind {
			case "playlist":
				if !e.nr.arrived {
					continue // still in flight when the run ended
				}
				if pi >= len(served) {
					r.Fail("harness", "served-log", "stream %s: more playlist requests than served states", st.name)
					return
				}
				if !awaitingPlaylist {
					r.Fail("playlist-refetch", "double", "stream %s: the playlist was requested twice in a row without a segment in between (request #%d)", st.name, e.nr.id)
					return
				}
				state = served[pi]
				pi++
				awaitingPlaylist = false
				// what must the client do with this state?
				if state.last < 0 {
					expectErr = "playlist-unavailable"
					continue
				}
				var next int
				if cur < 0 {
					if vod {
						next = state.first
					} else {
						next = state.last - 2 // third from last
						if next < state.first {
							expectErr = "not-enough-segments"
							continue
						}
					}
				} else {
					next = cur + 1
					if next > state.last || next < state.first {
						expectErr = "next-absent"
						continue
					}
					if !state.endlist && state.last-next+1 > 5 {
						expectErr = "too-late"
						continue
					}
				}
				cur = next
			case "init":
				wantRng := ""
				if st.initBR != 0 {
					wantRng = fmt.Sprintf("bytes=%d-%d", st.initOff, st.initOff+uint64(len(st.init))-1)
					r.Probe("init-byte-range-checked")
				}
				if e.nr.rng != wantRng {
					r.Fail("range", "init", "stream %s: the init section was requested with Range %q, EXT-X-MAP prescribes %q", st.name, e.nr.rng, wantRng)
					return
				}
				initSeen++
				if initSeen > 1 {
					r.Fail("init", "repeated", "stream %s: the init segment was requested %d times", st.name, initSeen)
					return
				}
			case "segment":
				if expectErr != "" {
					r.Fail("segment-after-stop", expectErr, "stream %s: after a playlist state that must stop the client (%s) it requested segment %d", st.name, expectErr, e.seg.idx)
					return
				}
				if state == nil {
					r.Fail("segment-order", "before-playlist", "stream %s: segment %d requested before any playlist", st.name, e.seg.idx)
					return
				}
				if awaitingPlaylist {
					r.Fail("playlist-refetch", "missing", "stream %s: segment %d was requested without re-fetching the playlist after segment %d", st.name, e.seg.idx, cur)
					return
				}
				if e.seg.idx != cur {
					what := "skipped-or-reordered"
					if segSeen[e.seg.idx] > 0 {
						what = "repeated"
					}
					r.Fail("segment-order", what, "stream %s: the client requested segment %d (media sequence %d), the rule calls for %d (playlist state %d..%d endlist=%v, vod=%v)",
						st.name, e.seg.idx, st.baseMSN+e.seg.idx, cur, state.first, state.last, state.endlist, vod)
					return
				}
				segSeen[e.seg.idx]++
				// Range header as the playlist prescribes
				if e.seg.hasBR {
					want := fmt.Sprintf("bytes=%d-%d", e.seg.brStart, e.seg.brStart+e.seg.brLen-1)
					if e.nr.rng != want {
						r.Fail("range", "header", "stream %s segment %d: Range %q, the playlist prescribes %q", st.name, e.seg.idx, e.nr.rng, want)
						return
					}
					r.Probe("byte-range-checked")
				} else if e.nr.rng != "" {
					r.Fail("range", "unexpected", "stream %s segment %d: unexpected Range header %q", st.name, e.seg.idx, e.nr.rng)
					return
				}
				awaitingPlaylist = true
				if state.endlist && cur == state.last {
					expectErr = "eos"
					awaitingPlaylist = false
				}
			}
		}
		r.Cell("c11 stream%d mode=%s end=%s", min(si, 1), st.mode, expectErr)
		if expectErr != "" && expectErr != "eos" {
			anyStop = true
		}
		if expectErr != "eos" {
			notAtEnd = append(notAtEnd, fmt.Sprintf("%s (last requested segment %d)", st.name, cur))
		}
		// the final outcome
		if si == 0 && w.waitSeen {
			switch {
			case expectErr == "eos":
				// every stream must reach its end for EOS; other streams are checked by their own walk
			case expectErr != "":
				if w.waitErr == nil || errors.Is(w.waitErr, gohlslib.ErrClientEOS) {
					r.Fail("outcome", expectErr, "stream %s: the playlist history must stop the client with an error (%s) but Wait yielded %s", st.name, expectErr, describeErr(w.waitErr))
					return
				}
			}
		}
		if expectErr != "" && expectErr != "eos" && !w.waitSeen {
			r.Fail("outcome", expectErr+"-no-error", "stream %s: the playlist history must stop the client (%s) but Wait yielded nothing", st.name, expectErr)
			return
		}
	}
	// no stream's playlist history calls for a stop, the network is fault-free: the client must still be running or
	// have ended with ErrClientEOS
	// (scripted playlists advance per poll and independently per stream: renditions that drift more than the
	// client's 10 s limit apart end playback by design)
	drift := false
	if w.waitSeen && w.waitErr != nil && w.waitErr.Error() == "difference between DTS and RTC is too big" && len(o.streams) > 1 {
		for _, st := range o.streams {
			if st.mode == "scripted" {
				drift = true
				r.Probe("scripted-renditions-drifted-apart")
			}
		}
	}
	if w.waitSeen && w.waitErr != nil && !errors.Is(w.waitErr, gohlslib.ErrClientEOS) && !anyStop && !drift {
		r.Fail("outcome", "unexpected-stop", "no playlist state served calls for a stop and no fault was injected, but Wait yielded %s", describeErr(w.waitErr))
		return
	}
	// ErrClientEOS exactly when every stream delivered the last ENDLIST segment
	allEOS := true
	for _, st := range o.streams {
		n := len(st.served)
		if n == 0 || !st.served[n-1].endlist {
			allEOS = false
		}
	}
	if w.waitSeen && errors.Is(w.waitErr, gohlslib.ErrClientEOS) && !allEOS {
		r.Fail("outcome", "early-eos", "Wait yielded ErrClientEOS although not every playlist had reached ENDLIST")
	}
	// ... and only after the last segment of every stream has been requested
	if w.waitSeen && errors.Is(w.waitErr, gohlslib.ErrClientEOS) && len(notAtEnd) > 0 && !r.Failed() {
		r.Fail("outcome", "eos-before-last-segment", "Wait yielded ErrClientEOS although the last segment of the ENDLIST playlist was never requested for: %s", strings.Join(notAtEnd, ", "))
	}
}

func scC11(r *Run) {
	T := r.T
	g := &originGen{containers: []string{"ts", "fmp4"}, modes: []string{"vod", "scripted", "scripted", "live", "event"}, minSegs: 3, maxSegs: 14,
		renditions: true, byteRanges: true, segDurMs: []int{500, 1000, 2000}, fastLive: true, noPDTChance: 3}
	o := genStubOrigin(r, g)
	for _, st := range o.streams {
		if st.mode == "scripted" {
			st.cursor = T.Range(0, min(6, len(st.segs)-1))
			for i := 0; i < 64; i++ {
				st.steps = append(st.steps, Pick(T, 0, 1, 1, 1, 1, 2, 3, 7))
			}
			st.endAfter = Pick(T, -1, len(st.segs), len(st.segs), T.Range(1, len(st.segs)))
			st.plType = Pick(T, "", "", "EVENT", "VOD")
			if st.plType == "EVENT" {
				st.window = 0
			}
		}
	}
	if T.Chance(1, 5) {
		for _, st := range o.streams {
			st.hintNoBlock = true
			st.version = 9
		}
		r.Probe("preload-hint-without-block-reload")
	}
	w := newCliWorld(r, o, o.primaryURL(), plainFate(T, Pick(T, 0, 5, 50, 400)))
	w.limit = 3 * time.Minute
	w.afterWait = 2 * time.Second
	r.Tracef("origin container=%s mode=%s streams=%d segs=%d multi=%v br=%v", o.streams[0].container, o.streams[0].mode, len(o.streams), len(o.streams[0].segs), o.multi, o.streams[0].segs[0].hasBR)
	w.run()
	r.Tracef("end: wait=%v err=%s requests=%d", w.waitSeen, describeErr(w.waitErr), len(w.net.log))
	oracleC11(r, w, o)
	r.Stats.NonTrivial = len(w.net.log) >= 3
	w.finish()
}

// scC11LLStub: the Low-Latency clauses against a Low-Latency origin of pre-generated content whose parts are
// addressed by URIs of their own or as byte ranges of their segment (the library's own muxer only does the former).
func scC11LLStub(r *Run) {
	T := r.T
	o := genLLOrigin(r, Pick(T, 1.0, 1.0, 0.5, 0.1))
	w := newCliWorld(r, o, o.primaryURL(), plainFate(T, Pick(T, 0, 5, 50)))
	o.net = w.net
	w.limit = 2 * time.Minute
	w.afterWait = time.Second
	r.Tracef("ll origin style=%s parts=%d segs=%d window=%d skip=%v", o.style, len(o.parts), len(o.segParts), o.window, o.canSkip)
	w.run()
	r.Tracef("end: wait=%v err=%s requests=%d", w.waitSeen, describeErr(w.waitErr), len(w.net.log))
	oracleLL(r, w, o)
	r.Cell("c11 ll-stub style=%s", o.style)
	r.Stats.NonTrivial = len(w.net.log) >= 4
	w.finish()
}

func init() {
	register(&PropDef{ID: "C11", Quick: 8000, Thorough: 320000, Profiles: []ProfileDef{
		{Name: "stub", Share: 6, Sc: scC11},
		{Name: "ll-muxer", Share: 1, Sc: scC11LL},
		{Name: "ll-stub", Share: 1, Sc: scC11LLStub},
	}})
}
