package sim

import (
	"encoding/json"
	"os"
	"sort"
	"testing"
)

// TestListProps prints the registry for the Python runner.
func TestListProps(t *testing.T) {
	path := os.Getenv("VERIF_LIST")
	if path == "" {
		t.Skip("no VERIF_LIST")
	}
	type prof struct {
		Name  string `json:"name"`
		Share int    `json:"share"`
		Race  bool   `json:"race"`
		Sweep int    `json:"sweep"`
	}
	type prop struct {
		ID       string `json:"id"`
		Quick    int    `json:"quick"`
		Thorough int    `json:"thorough"`
		Profiles []prof `json:"profiles"`
	}
	var out []prop
	for _, p := range Properties {
		pp := prop{ID: p.ID, Quick: p.Quick, Thorough: p.Thorough}
		for _, f := range p.Profiles {
			pp.Profiles = append(pp.Profiles, prof{f.Name, f.Share, f.Race, f.Sweep})
		}
		out = append(out, pp)
	}
	sort.Slice(out, func(i, j int) bool { return out[i].ID < out[j].ID })
	b, _ := json.MarshalIndent(out, "", " ")
	os.WriteFile(path, b, 0o644)
}
