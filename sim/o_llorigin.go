package sim

import (
	"fmt"
	"net/url"
	"strings"
	"time"
)

// llOrigin is a Low-Latency HLS origin made of pre-generated content: one fMP4 media playlist whose segments
// consist of parts, published one by one at fixed instants. A playlist request is answered with the state of
// that instant; a request for the hinted part is held until the part is published (what a blocking origin
// does). Parts are addressed by URIs of their own, or as byte ranges of their segment's resource.
type llPart struct {
	seg, idx int // segment index, index inside the segment
	n        int // global index
	body     []byte
	off      uint64 // offset inside the segment resource
	dur      time.Duration
	availAt  time.Duration
}

type llServed struct {
	at        time.Duration
	published int // parts published at that instant
}

type llOrigin struct {
	r        *Run
	net      *cliNet
	st       *sStream // content model (tracks, units, init) from the stub generator
	plURL    *url.URL
	parts    []*llPart
	segParts [][]*llPart
	segBody  [][]byte
	style    string // "uri" | "range"
	window   int    // complete segments listed
	partDur  time.Duration
	canSkip  bool
	served   []llServed
}

func (o *llOrigin) primaryURL() string { return o.plURL.String() }

// genLLOrigin: every gap-th of a part's media duration a new part is published (gap 1.0: in real time; small
// gaps: much faster than it plays, so that the client's queues fill).
func genLLOrigin(r *Run, pace float64) *llOrigin {
	T := r.T
	g := &originGen{containers: []string{"fmp4"}, modes: []string{"vod"}, minSegs: 3, maxSegs: 7, renditions: false, byteRanges: false,
		segDurMs: []int{1000, 2000}, multiFrag: true, minFrags: 4, noPDTChance: 3}
	so := genStubOrigin(r, g)
	st := so.streams[0]
	o := &llOrigin{r: r, st: st, style: Pick(T, "uri", "range", "range"), window: T.Range(2, 5), canSkip: T.Chance(1, 3)}
	o.plURL, _ = url.Parse("http://ll.example/live/main.m3u8")
	seq := uint32(1)
	perPart := Pick(T, 1, 1, 2) // fragments per part
	n := 0
	for si, sg := range st.segs {
		frs := renderFMP4Fragments(st, sg, &seq)
		var ps []*llPart
		var body []byte
		for i := 0; i < len(frs); i += perPart {
			var b []byte
			for _, f := range frs[i:min(len(frs), i+perPart)] {
				b = append(b, f...)
			}
			p := &llPart{seg: si, idx: len(ps), n: n, body: b, off: uint64(len(body))}
			n++
			body = append(body, b...)
			ps = append(ps, p)
		}
		for _, p := range ps {
			p.dur = sg.dur / time.Duration(len(ps))
		}
		o.segParts = append(o.segParts, ps)
		o.segBody = append(o.segBody, body)
		o.parts = append(o.parts, ps...)
	}
	// the first one or two segments and a few parts of the next exist when the client arrives
	head := len(o.segParts[0])
	if T.Chance(1, 2) {
		head += len(o.segParts[1])
	}
	head += T.Intn(3)
	if head > len(o.parts)-2 {
		head = max(1, len(o.parts)-2)
	}
	at := time.Duration(0)
	for _, p := range o.parts {
		if p.n >= head {
			at += time.Duration(float64(p.dur) * pace)
		}
		p.availAt = at
		if p.dur > o.partDur {
			o.partDur = p.dur
		}
	}
	return o
}

func (o *llOrigin) partURI(p *llPart) string {
	if o.style == "range" {
		return fmt.Sprintf("main_%d.mp4", p.seg)
	}
	return fmt.Sprintf("main_%d_part%d.mp4", p.seg, p.idx)
}

func (o *llOrigin) publishedAt(t time.Duration) int {
	k := 0
	for _, p := range o.parts {
		if p.availAt <= t {
			k++
		}
	}
	return k
}

// playlist renders the state in which the first k parts are published.
func (o *llOrigin) playlist(k int) []byte {
	var b strings.Builder
	complete := 0 // complete segments
	for si, ps := range o.segParts {
		if ps[len(ps)-1].n < k {
			complete = si + 1
		}
	}
	first := 0
	if complete > o.window {
		first = complete - o.window
	}
	td := 1
	for _, sg := range o.st.segs {
		if s := int(sg.dur.Seconds() + 0.5); s > td {
			td = s
		}
	}
	fmt.Fprintf(&b, "#EXTM3U\n#EXT-X-VERSION:9\n#EXT-X-TARGETDURATION:%d\n", td)
	sc := fmt.Sprintf("#EXT-X-SERVER-CONTROL:CAN-BLOCK-RELOAD=YES,PART-HOLD-BACK=%s", fmtDur(3*o.partDur))
	if o.canSkip {
		sc += fmt.Sprintf(",CAN-SKIP-UNTIL=%s", fmtDur(time.Duration(6*td)*time.Second))
	}
	b.WriteString(sc + "\n")
	fmt.Fprintf(&b, "#EXT-X-PART-INF:PART-TARGET=%s\n", fmtDur(o.partDur))
	fmt.Fprintf(&b, "#EXT-X-MEDIA-SEQUENCE:%d\n", first)
	b.WriteString("#EXT-X-MAP:URI=\"main_init.mp4\"\n")
	writePart := func(p *llPart) {
		fmt.Fprintf(&b, "#EXT-X-PART:DURATION=%s,URI=\"%s\"", fmtDur(p.dur), o.partURI(p))
		if p.idx == 0 {
			b.WriteString(",INDEPENDENT=YES")
		}
		if o.style == "range" {
			fmt.Fprintf(&b, ",BYTERANGE=\"%d@%d\"", len(p.body), p.off)
		}
		b.WriteString("\n")
	}
	for si := first; si < complete; si++ {
		if sg := o.st.segs[si]; sg.pdt != nil {
			fmt.Fprintf(&b, "#EXT-X-PROGRAM-DATE-TIME:%s\n", sg.pdt.UTC().Format("2006-01-02T15:04:05.000Z07:00"))
		}
		if si >= complete-2 {
			for _, p := range o.segParts[si] {
				writePart(p)
			}
		}
		fmt.Fprintf(&b, "#EXTINF:%s,\nmain_%d.mp4\n", fmtDur(o.st.segs[si].dur), si)
	}
	if complete < len(o.segParts) {
		if sg := o.st.segs[complete]; sg.pdt != nil {
			fmt.Fprintf(&b, "#EXT-X-PROGRAM-DATE-TIME:%s\n", sg.pdt.UTC().Format("2006-01-02T15:04:05.000Z07:00"))
		}
		for _, p := range o.segParts[complete] {
			if p.n < k {
				writePart(p)
			}
		}
	}
	if k < len(o.parts) {
		h := o.parts[k]
		fmt.Fprintf(&b, "#EXT-X-PRELOAD-HINT:TYPE=PART,URI=\"%s\"", o.partURI(h))
		if o.style == "range" {
			fmt.Fprintf(&b, ",BYTERANGE-START=%d,BYTERANGE-LENGTH=%d", h.off, len(h.body))
		}
		b.WriteString("\n")
	} else {
		b.WriteString("#EXT-X-ENDLIST\n")
	}
	return []byte(b.String())
}

func (o *llOrigin) serve(nr *netReq) *originResp {
	u := nr.req.URL
	now := o.r.Now()
	name := u.Path[strings.LastIndexByte(u.Path, '/')+1:]
	switch {
	case name == "main.m3u8":
		k := o.publishedAt(now)
		o.served = append(o.served, llServed{at: now, published: k})
		return &originResp{status: 200, body: o.playlist(k), ctype: "application/vnd.apple.mpegurl", done: true}
	case name == "main_init.mp4":
		return &originResp{status: 200, body: o.st.init, ctype: "video/mp4", done: true}
	}
	// a part by its own URI, or a byte range of a segment resource
	var target *llPart
	var si, pi int
	if n, _ := fmt.Sscanf(name, "main_%d_part%d.mp4", &si, &pi); n == 2 && o.style == "uri" {
		if si >= 0 && si < len(o.segParts) && pi >= 0 && pi < len(o.segParts[si]) {
			target = o.segParts[si][pi]
		}
	} else if n, _ := fmt.Sscanf(name, "main_%d.mp4", &si); n == 1 && si >= 0 && si < len(o.segParts) {
		if h := nr.req.Header.Get("Range"); h != "" {
			s, e, ok := parseRange(h)
			if !ok {
				return &originResp{status: 416, body: []byte("bad range"), done: true}
			}
			for _, p := range o.segParts[si] {
				if p.off == s && p.off+uint64(len(p.body))-1 == e {
					target = p
				}
			}
			if target == nil {
				return &originResp{status: 416, body: []byte("range does not match a part"), done: true}
			}
		} else {
			// the whole segment: available once its last part is
			last := o.segParts[si][len(o.segParts[si])-1]
			if last.availAt > now {
				return &originResp{status: 404, body: []byte("not yet"), done: true}
			}
			return &originResp{status: 200, body: o.segBody[si], ctype: "video/mp4", done: true}
		}
	}
	if target == nil {
		return &originResp{status: 404, body: []byte("not found"), done: true}
	}
	status := 200
	if o.style == "range" {
		status = 206
	}
	if target.availAt <= now {
		return &originResp{status: status, body: target.body, ctype: "video/mp4", done: true}
	}
	// the hinted part: the response is held until the part is published
	resp := &originResp{}
	o.net.schedule(target.availAt, "custom", nil, func() {
		resp.status, resp.body, resp.ctype, resp.done = status, target.body, "video/mp4", true
	})
	return resp
}

// oracleLL: the Low-Latency request rules of C11 against the served states: every playlist is followed by the
// download of exactly its preload hint (URI and, for byte-range addressing, Range), every hint by a reload.
func oracleLL(r *Run, w *cliWorld, o *llOrigin) {
	if len(o.served) == 0 || o.served[0].published >= len(o.parts) {
		r.Probe("ll-stub-first-playlist-without-hint") // not a Low-Latency session
		return
	}
	expect := "" // "" = a playlist is due; else the hint due: "uri|range"
	pi := 0
	for _, nr := range w.net.log {
		u := nr.req.URL
		name := u.Path[strings.LastIndexByte(u.Path, '/')+1:]
		switch {
		case name == "main.m3u8":
			if expect != "" {
				r.Fail("ll-request-log", "playlist-without-hint", "the playlist was fetched again although the preload hint %s of the previous one was never requested", expect)
				return
			}
			if !nr.arrived {
				continue
			}
			if pi >= len(o.served) {
				r.Fail("harness", "served-log", "more playlist requests than served states")
				return
			}
			k := o.served[pi].published
			if pi > 0 {
				if gotSkip := u.Query().Get("_HLS_skip") == "YES"; gotSkip != o.canSkip {
					r.Fail("ll-request-log", "delta-update", "CAN-SKIP-UNTIL advertised=%v but the reload %s asks for a delta update=%v", o.canSkip, nr.url, gotSkip)
					return
				}
			}
			pi++
			if k < len(o.parts) {
				h := o.parts[k]
				expect = o.partURI(h) + "|"
				if o.style == "range" {
					expect += fmt.Sprintf("bytes=%d-%d", h.off, h.off+uint64(len(h.body))-1)
				}
			}
		case name == "main_init.mp4":
		default:
			got := name + "|" + nr.rng
			if expect == "" {
				r.Fail("ll-request-log", "unhinted-download", "the client requested %s (Range %q) although no preload hint was outstanding", nr.url, nr.rng)
				return
			}
			if got != expect {
				r.Fail("ll-request-log", "wrong-hint", "the client requested %s (Range %q), the preload hint of the latest playlist is %s", nr.url, nr.rng, expect)
				return
			}
			expect = ""
			r.Probe("ll-stub-hint-checked")
		}
	}
}
