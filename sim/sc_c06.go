package sim

import (
	"bytes"
	"fmt"
	"net/url"
	"strings"
)

// C06: LL-HLS blocking reload, preload hints and delta updates.

type llState struct {
	ms         int // media sequence of the first listed segment
	open       int // msn of the open segment (last complete + 1)
	nOpenParts int
	nparts     map[int]int // msn -> number of parts, for segments listed with their parts
	gapMSN     map[int]bool
	firstPart  int // number of the first part listed (-1: none)
	lastPart   int // number of the last complete part listed (-1: none)
	partURI    map[int]string
	hintNum    int
	hintURI    string
	pl         *mediaPL
	raw        []byte
	progress   int
}

func llStateOf(pl *mediaPL, raw []byte, progress int) *llState {
	st := &llState{ms: pl.MediaSequence, open: pl.MediaSequence + len(pl.Segments), nOpenParts: len(pl.TrailingParts),
		nparts: map[int]int{}, gapMSN: map[int]bool{}, firstPart: -1, lastPart: -1, partURI: map[int]string{}, pl: pl, raw: raw, progress: progress}
	for i, sg := range pl.Segments {
		if sg.Gap {
			st.gapMSN[pl.MediaSequence+i] = true
		}
		if len(sg.Parts) > 0 {
			st.nparts[pl.MediaSequence+i] = len(sg.Parts)
		}
		for _, p := range sg.Parts {
			n := uriNumber(p.URI)
			if st.firstPart < 0 {
				st.firstPart = n
			}
			st.lastPart = n
			st.partURI[n] = stripQuery(p.URI)
		}
	}
	for _, p := range pl.TrailingParts {
		n := uriNumber(p.URI)
		if st.firstPart < 0 {
			st.firstPart = n
		}
		st.lastPart = n
		st.partURI[n] = stripQuery(p.URI)
	}
	st.hintNum = -1
	if pl.HasPreload {
		st.hintNum = uriNumber(pl.PreloadHint)
		st.hintURI = stripQuery(pl.PreloadHint)
	}
	return st
}

// hasSegment: the playlist contains the complete segment M.
func (st *llState) hasSegment(m int) bool { return m >= st.ms && m < st.open }

// hasPart: the playlist contains part p of segment m, with the statement's roll-over rule.
func (st *llState) hasPart(m, p int) bool {
	switch {
	case m < st.ms:
		return false
	case m < st.open:
		if st.gapMSN[m] {
			return true // a listed gap entry is a complete (if empty) segment
		}
		n, known := st.nparts[m]
		if !known || p < n {
			return true
		}
		// past the end of a complete segment: part 0 of the following segment
		if m+1 < st.open {
			return true
		}
		return m+1 == st.open && st.nOpenParts >= 1
	case m == st.open:
		return p < st.nOpenParts
	}
	return false
}

type llReq struct {
	desc    string
	stream  string
	hasM    bool
	hasP    bool
	m, p    int
	junk    bool
	skip    string
	extra   string
	path    string
	resp    *httpResp
	task    *Task
	inv     *llState
	class   string // classification of M relative to the playlist at invoke
	hint    bool
	hintNum int
	done    bool
	encoded bool
}

func scC06(r *Run) {
	T := r.T
	g := &muxGen{variants: []string{"ll"}, minCalls: 40, maxCalls: 300, paramChanges: T.Chance(1, 4), fastRotation: T.Chance(1, 3)}
	cfg := genMuxCfg(r, g)
	script := genScript(r, cfg, g)
	w, err := newMuxWorld(r, cfg, script)
	if err != nil {
		r.Probe("start-error")
		return
	}
	w.probesBypassHooks = true
	armed := ""
	for _, s := range []string{"rotate.beforeBroadcast", "server.beforeHandler", "preload.beforeDelegate"} {
		if T.Chance(2, 3) {
			r.Arm(s)
			armed += " " + s
		}
	}
	// always armed: the writer pauses after every broadcast until the woken waiters are at rest, so that a
	// Write call with several rotations is exactly repeatable (which state a woken waiter re-checks would
	// otherwise depend on its race with the continuing writer)
	r.Arm("rotate.afterBroadcast")
	maxReq := T.Range(1, 12)
	reqWeight := Pick(T, 1, 3, 6)
	r.Tracef("config %s calls=%d maxReq=%d reqW=%d armed=[%s]", cfg, len(script), maxReq, reqWeight, armed)

	var streamURIs []string
	content := false
	var cur *llState
	var idxProbe *httpResp
	partMSN := map[int]int{}
	probe := func() *llState {
		if !content {
			if idxProbe == nil {
				idxProbe = w.get("index.m3u8")
			}
			idx := idxProbe
			if !idx.isDone() {
				return nil
			}
			if idx.effStatus() != 200 {
				r.Fail("fetch", "index", "multivariant playlist returned %d", idx.effStatus())
				return nil
			}
			mp, err := parseMultivariant(idx.body)
			if err != nil {
				r.Fail("grammar", "index", "multivariant playlist: %v", err)
				return nil
			}
			for _, v := range mp.Variants {
				streamURIs = append(streamURIs, stripQuery(v.URI))
			}
			for _, rd := range mp.Renditions {
				if rd.HasURI {
					streamURIs = append(streamURIs, stripQuery(rd.URI))
				}
			}
			content = true
		}
		p := w.get(streamURIs[0])
		if !p.isDone() {
			r.Fail("blocked", "media-playlist", "plain media playlist request blocked although content is available")
			return nil
		}
		if p.effStatus() != 200 {
			r.Fail("fetch", "media-playlist", "plain media playlist request returned %d", p.effStatus())
			return nil
		}
		pl, err := parseMediaPlaylist(p.body)
		if err != nil {
			r.Fail("grammar", "media-playlist", "media playlist is not grammatical: %v\n%s", err, p.body)
			return nil
		}
		cur = llStateOf(pl, p.body, w.progress())
		// remember which segment every part belongs to
		for i, sg := range pl.Segments {
			for _, pp := range sg.Parts {
				partMSN[uriNumber(pp.URI)] = pl.MediaSequence + i
			}
		}
		for _, pp := range pl.TrailingParts {
			partMSN[uriNumber(pp.URI)] = pl.MediaSequence + len(pl.Segments)
		}
		return cur
	}

	var active []*llReq
	nClient := 0
	issue := func() {
		st := probe() // the state at issue time, also while the writer is parked mid-rotation
		if st == nil {
			return
		}
		q := &llReq{inv: st, stream: streamURIs[T.Intn(len(streamURIs))]}
		kind := T.Intn(20)
		switch {
		case kind == 0 && st.hintNum >= 0:
			q.hint, q.hintNum = true, st.hintNum
			q.path = st.hintURI
			q.desc = fmt.Sprintf("preload-hint part %d", st.hintNum)
			q.class = "hint"
		case kind == 1 && st.hintNum >= 0:
			q.hint, q.hintNum = true, st.hintNum
			q.path = st.hintURI
			q.desc = fmt.Sprintf("preload-hint part %d", st.hintNum)
			q.class = "hint"
		case kind == 2:
			q.hasP, q.p = true, T.Intn(3)
			q.class = "part-without-msn"
		case kind == 3:
			q.junk = true
			q.class = "junk"
		default:
			q.hasM = true
			// M relative to the playlist current at issue time
			lastComplete := st.open - 1
			switch T.Intn(12) {
			case 0:
				q.m, q.class = max(0, st.ms-1-T.Intn(3)), "expired"
				if st.ms == 0 {
					q.m, q.class = st.ms, "head"
				}
			case 1:
				q.m, q.class = st.ms, "head"
			case 2:
				q.m, q.class = st.ms+1+T.Intn(max(1, lastComplete-st.ms-1)), "past"
				if q.m >= lastComplete {
					q.m, q.class = lastComplete, "last-complete"
				}
			case 3, 4:
				q.m, q.class = lastComplete, "last-complete"
			case 5, 6, 7:
				q.m, q.class = st.open, "open"
			case 8, 9:
				q.m, q.class = st.open+1, "open+1"
			case 10:
				q.m, q.class = st.open+2+T.Intn(2), "open+2.."
			default:
				q.m, q.class = st.open+100+T.Intn(1<<20), "far-future"
			}
			if st.gapMSN[q.m] && q.class != "head" {
				q.class = "gap"
			} else if st.gapMSN[q.m] {
				q.class = "head-gap"
			}
			if T.Chance(3, 4) {
				q.hasP = true
				base := 0
				switch q.class {
				case "open":
					base = st.nOpenParts
				case "last-complete":
					base = st.nparts[q.m]
				}
				q.p = max(0, base+Pick(T, -1, 0, 0, 1, 2, 50))
				if T.Chance(1, 6) {
					q.p = 0
				}
			}
		}
		if !q.hint {
			vals := []string{}
			if q.junk {
				// (a decimal-integer is digits only: prefixes, signs, separators and spaces make it unparsable)
				vals = append(vals, Pick(T, "_HLS_msn=abc", "_HLS_msn=-1", "_HLS_msn=1&_HLS_part=x", "_HLS_msn=99999999999999999999", "_HLS_msn=1.5",
					"_HLS_msn=0x1", "_HLS_msn=0b1", "_HLS_msn=1_0", "_HLS_msn=%2B1", "_HLS_msn=1&_HLS_part=0x0", "_HLS_msn=1&_HLS_part=0o0", "_HLS_msn=%201"))
			} else {
				// leading zeros do not change a decimal-integer
				numFmt := Pick(T, "%d", "%d", "%d", "%03d", "0%d")
				if q.hasM {
					vals = append(vals, fmt.Sprintf("_HLS_msn="+numFmt, q.m))
				}
				if q.hasP {
					vals = append(vals, fmt.Sprintf("_HLS_part="+numFmt, q.p))
				}
			}
			switch T.Intn(8) {
			case 0:
				q.skip = "YES"
			case 1:
				q.skip = "v2"
			case 2:
				q.skip = "NO"
			}
			if q.skip != "" {
				vals = append(vals, "_HLS_skip="+q.skip)
			}
			if T.Chance(1, 4) {
				q.extra = Pick(T, "token=abc", "a=1&b=2")
				vals = append(vals, q.extra)
			}
			// delivery directives this server does not implement are still directives (reserved _HLS_ prefix)
			if T.Chance(1, 6) {
				vals = append(vals, Pick(T, "_HLS_push=0", "_HLS_report=..%2Fother.m3u8", "_HLS_primary_id=7", "_HLS_start_offset=3"))
			}
			// a directive name may arrive percent-encoded: the server decodes names, so it still is a directive
			if T.Chance(1, 5) {
				for i, v := range vals {
					if strings.HasPrefix(v, "_HLS_") {
						vals[i] = Pick(T, "%5FHLS_", "_%48LS_", "_HLS%5F", "%5F%48%4C%53%5F") + v[5:]
						q.encoded = true
					}
				}
			}
			q.path = q.stream + "?" + strings.Join(vals, "&")
			q.desc = q.path
		}
		q.task = w.newClient(fmt.Sprintf("client%d", nClient))
		nClient++
		q.resp = w.request(q.task, q.path)
		active = append(active, q)
		r.Tracef("  issue %s [%s] at ms=%d open=%d openParts=%d", q.desc, q.class, st.ms, st.open, st.nOpenParts)
		r.Cell("c06 %s part=%v", q.class, q.hasP)
		syncWait()
	}

	urisOf := func(pl *mediaPL) []string {
		var us []string
		if pl.HasMap {
			us = append(us, pl.MapURI)
		}
		for _, sg := range pl.Segments {
			if !sg.Gap {
				us = append(us, sg.URI)
			}
			for _, p := range sg.Parts {
				us = append(us, p.URI)
			}
		}
		for _, p := range pl.TrailingParts {
			us = append(us, p.URI)
		}
		if pl.HasPreload {
			us = append(us, pl.PreloadHint)
		}
		return us
	}

	// safety of one completed response
	checkDone := func(q *llReq, st *llState) {
		q.done = true
		resp := q.resp
		status := resp.effStatus()
		r.Tracef("  done %s -> %d (%d bytes)", q.desc, status, len(resp.body))
		if q.hint {
			if status != 200 {
				expired := st != nil && st.ms > q.inv.open+1
				if m, ok := partMSN[q.hintNum]; ok && st != nil {
					expired = m < st.ms
				}
				if expired {
					// the request was held up (parked before the delegate) until the segment holding the part
					// had left the window: an expired URI may fail, it must only not return foreign bytes
					r.Probe("preload-hint-expired-before-served")
					return
				}
				again := w.get(q.path)
				r.Fail("preload-hint", "status", "preload hint request for part %d returned %d (a fresh request for the same URI now returns %d with %d bytes; window %d..%d; dir=%v)", q.hintNum, status,
					again.effStatus(), len(again.body), st.ms, st.open-1, w.dirEntries())
				return
			}
			if st == nil {
				return
			}
			// the part must be listed by now (or have been: numbers below the first listed part are older)
			listed := q.hintNum <= st.lastPart
			if !listed {
				r.Fail("preload-hint", "early", "preload hint request for part %d completed but the playlist does not list that part yet (last listed part %d)\n%s", q.hintNum, st.lastPart, st.raw)
				return
			}
			if u, ok := st.partURI[q.hintNum]; ok {
				ref := w.get(u)
				if ref.isDone() && ref.effStatus() == 200 && !bytes.Equal(ref.body, resp.body) {
					r.Fail("preload-hint", "bytes", "preload hint request for part %d returned %d bytes that differ from the %d bytes of the listed part %s", q.hintNum, len(resp.body), len(ref.body), u)
					return
				}
				r.Probe("preload-hint-bytes-compared")
			}
			if resp.ret > q.inv.progress {
				r.Probe("preload-hint-blocked-then-served")
			}
			return
		}
		if q.junk || (q.hasP && !q.hasM) {
			if status != 400 {
				r.Fail("bad-request", q.class, "request %s returned %d, expected an immediate 400", q.desc, status)
			}
			return
		}
		if !q.hasM {
			return
		}
		inv := q.inv
		if status == 400 {
			// legal only for the statement's reasons
			tooFar := q.m > inv.open+1
			expired := st != nil && q.m < st.ms || q.m < inv.ms
			head := q.m == inv.ms || (st != nil && q.m == st.ms)
			switch {
			case tooFar, expired, head:
				return // head either way: the pinned test TestMuxerExpiredSegment fixes 400 for the oldest listed segment
			case inv.gapMSN[q.m]:
				r.Fail("rejected", "gap-msn", "request %s names a listed gap entry (media sequence %d, window %d..%d at issue) and was rejected with 400", q.desc, q.m, inv.ms, inv.open-1)
			default:
				r.Fail("rejected", q.class, "request %s was rejected with 400 although media sequence %d was within reach (window %d..%d, open %d at issue)", q.desc, q.m, inv.ms, inv.open-1, inv.open)
			}
			return
		}
		if status != 200 {
			r.Fail("status", q.class, "request %s returned status %d", q.desc, status)
			return
		}
		if st != nil && q.m > st.open+1 {
			// still out of reach in the state in which it was answered (a request delayed in dispatch is judged
			// against the states between invoke and return, not against the invoke state alone)
			r.Fail("not-rejected", q.class, "request %s is more than two past the last complete segment (%d) and was not rejected", q.desc, st.open-1)
			return
		}
		pl, err := parseMediaPlaylist(resp.body)
		if err != nil {
			r.Fail("grammar", "blocking-reload", "response to %s is not grammatical: %v\n%s", q.desc, err, resp.body)
			return
		}
		got := llStateOf(pl, resp.body, 0)
		if pl.HasSkip {
			got.ms += 0 // MEDIA-SEQUENCE of a delta update is that of the full playlist
			got.open = pl.MediaSequence + pl.Skipped + len(pl.Segments)
			got.nparts = map[int]int{}
			got.gapMSN = map[int]bool{}
			for i, sg := range pl.Segments {
				if len(sg.Parts) > 0 {
					got.nparts[pl.MediaSequence+pl.Skipped+i] = len(sg.Parts)
				}
				if sg.Gap {
					got.gapMSN[pl.MediaSequence+pl.Skipped+i] = true
				}
			}
		}
		if q.hasP {
			if !got.hasPart(q.m, q.p) {
				r.Fail("answered-early", "part", "response to %s does not contain part %d of segment %d (nor, past its end, part 0 of the next one): window %d..%d, %d parts in the open segment\n%s",
					q.desc, q.p, q.m, got.ms, got.open-1, got.nOpenParts, resp.body)
				return
			}
		} else {
			if !(q.m < got.open) {
				key := "msn-without-part"
				r.Fail("answered-early", key, "response to %s does not contain the complete segment %d: last complete segment is %d (%d parts in the open segment)\n%s",
					q.desc, q.m, got.open-1, got.nOpenParts, resp.body)
				return
			}
		}
		if resp.ret > inv.progress {
			r.Probe("blocking-reload-blocked-then-served")
		}
		// URIs never carry _HLS_ directives; other query parameters are preserved
		for _, u := range urisOf(pl) {
			leaked := strings.Contains(u, "_HLS_")
			if i := strings.IndexByte(u, '?'); i >= 0 && !leaked {
				if qv, err := url.ParseQuery(u[i+1:]); err == nil {
					for k := range qv {
						if strings.HasPrefix(k, "_HLS_") {
							leaked = true
						}
					}
				}
			}
			if leaked {
				r.Fail("uri-query", "hls-directive-leaked", "response to %s lists URI %q carrying an _HLS_ directive", q.desc, u)
				return
			}
			if q.extra != "" {
				i := strings.IndexByte(u, '?')
				ok := false
				if i >= 0 {
					want, _ := url.ParseQuery(q.extra)
					have, _ := url.ParseQuery(u[i+1:])
					ok = len(have) == len(want)
					for k, v := range want {
						if len(have[k]) != 1 || have[k][0] != v[0] {
							ok = false
						}
					}
				}
				if !ok {
					r.Fail("uri-query", "not-preserved", "response to %s lists URI %q, which does not preserve the query parameters %q", q.desc, u, q.extra)
					return
				}
			}
		}
	}

	// bounded liveness: with the writer between operations and nobody parked, a pending request whose
	// target is published must already have been answered
	checkLiveness := func(st *llState) {
		for _, q := range active {
			if q.done || q.resp.isDone() || !q.task.Blocked() {
				continue
			}
			if q.hint {
				if q.hintNum <= st.lastPart {
					r.Fail("not-woken", "preload-hint", "preload hint request for part %d is still blocked although the playlist lists parts up to %d", q.hintNum, st.lastPart)
					return
				}
				continue
			}
			if !q.hasM || q.junk {
				r.Fail("not-woken", q.class, "request %s is blocked", q.desc)
				return
			}
			pub := false
			if q.hasP {
				pub = st.hasPart(q.m, q.p)
			} else {
				pub = q.m >= st.ms && q.m < st.open
			}
			if pub {
				key := q.class
				if q.inv.gapMSN[q.m] {
					key = "gap-msn"
				}
				r.Fail("not-woken", key, "request %s is still blocked although its target is published (window %d..%d, open segment has %d parts) and the writer is idle", q.desc, st.ms, st.open-1, st.nOpenParts)
				return
			}
			if q.m < st.ms {
				key := q.class
				if q.inv.gapMSN[q.m] {
					key = "gap-msn"
				}
				r.Fail("not-woken", key+"-expired", "request %s is still blocked although media sequence %d has left the window (%d..%d)", q.desc, q.m, st.ms, st.open-1)
				return
			}
		}
	}

	deltaCheck := func() {
		if len(streamURIs) == 0 {
			return
		}
		u := streamURIs[T.Intn(len(streamURIs))]
		full := w.get(u)
		for _, sk := range []string{"YES", "v2", "NO", "yes"} {
			d := w.get(u + "?_HLS_skip=" + sk)
			if !full.isDone() || !d.isDone() || full.effStatus() != 200 || d.effStatus() != 200 {
				r.Fail("delta", "fetch", "delta/full playlist request failed (%d/%d)", full.effStatus(), d.effStatus())
				return
			}
			fp, err1 := parseMediaPlaylist(full.body)
			dp, err2 := parseMediaPlaylist(d.body)
			if err1 != nil || err2 != nil {
				r.Fail("grammar", "delta", "delta or full playlist is not grammatical: %v %v\n%s", err1, err2, d.body)
				return
			}
			if sk != "YES" && sk != "v2" {
				if !bytes.Equal(full.body, d.body) {
					r.Fail("delta", "unexpected-skip", "_HLS_skip=%s changed the playlist", sk)
				}
				continue
			}
			if !dp.HasSkip || dp.HasMap {
				r.Fail("delta", "shape", "_HLS_skip=%s response must carry EXT-X-SKIP and no EXT-X-MAP\n%s", sk, d.body)
				return
			}
			k := dp.Skipped
			// expected text: the full playlist with the MAP line and the lines of the first k segments replaced by one SKIP tag
			var want []string
			segSeen := 0
			lines := strings.Split(strings.TrimSuffix(string(full.body), "\n"), "\n")
			inserted := false
			var pendingSeg []string
			for _, ln := range lines {
				switch {
				case strings.HasPrefix(ln, "#EXT-X-MAP:"):
					want = append(want, fmt.Sprintf("#EXT-X-SKIP:SKIPPED-SEGMENTS=%d", k))
					inserted = true
				case strings.HasPrefix(ln, "#EXT-X-GAP"), strings.HasPrefix(ln, "#EXT-X-PROGRAM-DATE-TIME:"), strings.HasPrefix(ln, "#EXTINF:"),
					strings.HasPrefix(ln, "#EXT-X-PART:") && segSeen < len(fp.Segments):
					pendingSeg = append(pendingSeg, ln)
				case !strings.HasPrefix(ln, "#") && ln != "":
					pendingSeg = append(pendingSeg, ln)
					if segSeen >= k {
						want = append(want, pendingSeg...)
					}
					pendingSeg = nil
					segSeen++
				default:
					want = append(want, pendingSeg...)
					pendingSeg = nil
					want = append(want, ln)
				}
			}
			want = append(want, pendingSeg...)
			if !inserted || k < 0 || k > len(fp.Segments) {
				r.Fail("delta", "shape", "cannot derive the expected delta update (skipped=%d of %d)", k, len(fp.Segments))
				return
			}
			if got := strings.TrimSuffix(string(d.body), "\n"); got != strings.Join(want, "\n") {
				r.Fail("delta", "content", "_HLS_skip=%s response is not the full playlist of the same instant with its first %d segments and EXT-X-MAP replaced by EXT-X-SKIP\n--- delta\n%s\n--- expected\n%s", sk, k, got, strings.Join(want, "\n"))
				return
			}
			if k > 0 {
				r.Probe("delta-with-skipped-segments")
			}
			r.Probe("delta-compared")
		}
	}

	afterStep := func() {
		done := w.poll()
		if r.Failed() {
			return
		}
		var st *llState
		if content || len(done) > 0 || w.writer.Idle() {
			st = probe()
		}
		if r.Failed() {
			return
		}
		for _, q := range active {
			if !q.done && q.resp.isDone() {
				checkDone(q, st)
				if r.Failed() {
					return
				}
			}
		}
		kept := active[:0]
		for _, q := range active {
			if !q.done {
				kept = append(kept, q)
			}
		}
		active = kept
		if st != nil && w.writer.Idle() && len(r.ParkedTasks()) == 0 {
			checkLiveness(st)
		}
	}

	for r.Stats.Steps < 3000 && !r.Failed() {
		var acts []Action
		if w.writer.Idle() && w.next < len(script) {
			acts = append(acts, Action{"write", 10, func() {
				cl := w.writeNext()
				if cl.done && cl.err != nil {
					w.script = w.script[:w.next]
				}
			}})
		}
		for _, t := range r.ParkedTasks() {
			t := t
			acts = append(acts, Action{"resume " + t.Name + "@" + t.Parked(), 6, func() { t.Resume() }})
		}
		if content && len(active) < maxReq && w.next < len(script) {
			acts = append(acts, Action{"request", reqWeight, issue})
			acts = append(acts, Action{"delta-check", 1, deltaCheck})
		}
		if len(acts) == 0 {
			break
		}
		r.Choose(acts)
		afterStep()
	}
	r.Stats.NonTrivial = nClient > 0
	for _, q := range active {
		if !q.done {
			r.Probe("pending-at-end")
		}
	}
	w.finish()
}

func init() {
	register(&PropDef{ID: "C06", Quick: 2000, Thorough: 150000, Profiles: []ProfileDef{{Name: "ll", Share: 1, Sc: scC06}}})
}
