package sim

import (
	"fmt"
	"net/url"

	"github.com/bluenviron/mediacommon/v2/pkg/formats/fmp4"
	"math/big"
	"net/http"
	"strings"
	"time"

	"github.com/bluenviron/gohlslib/v2"
	"github.com/bluenviron/gohlslib/v2/pkg/codecs"
)

// C09: a Client reading a Muxer reproduces the written stream. The origin is the real muxer:
// Handle runs in its own goroutine per request (it may block), the writer is paced by the simulated clock.

type muxOrigin struct {
	r    *Run
	w    *muxWorld
	tr   *simTransport
	reqs int
	// query parameters of the primary URL: the muxer repeats them in every URI it writes, so every request must
	// carry them; one that does not is refused like a token-protected server would
	needQuery url.Values
	queryLost string
}

func (o *muxOrigin) serve(nr *netReq) *originResp {
	resp := &originResp{}
	hr := &httpResp{hdr: http.Header{}}
	o.reqs++
	req := &http.Request{Method: "GET", URL: nr.req.URL, Header: nr.req.Header}
	got := nr.req.URL.Query()
	for k, v := range o.needQuery {
		if len(got[k]) != 1 || got[k][0] != v[0] {
			if o.queryLost == "" {
				o.queryLost = nr.url
			}
			return &originResp{status: 403, body: []byte("forbidden"), done: true}
		}
	}
	go func() {
		o.w.m.Handle(&respWriter{hr}, req)
		resp.status = hr.effStatus()
		resp.body = hr.body
		resp.ctype = hr.ctype()
		resp.done = true
		o.tr.poke()
	}()
	syncWait()
	return resp
}

func deliveredKey(kind string, data [][]byte) string {
	switch kind {
	case "h264", "h265":
		return string(avcc(data))
	case "av1":
		var b []byte
		for _, o := range data {
			b = append(b, o...)
		}
		return string(b)
	}
	if len(data) == 0 {
		return ""
	}
	return string(data[0])
}

func scC09(r *Run) { runC09(r, allVariants, "") }

// scC11LL: the Low-Latency clauses of C11 against the real Low-Latency muxer as origin.
func scC11LL(r *Run) { runC09(r, []string{"ll"}, "c11ll") }

// scC13Muxer: byte-level damage to the responses of a real muxer (C13, in particular Low-Latency playlists
// that lose their preload hint, parts, or server-control line on a later poll).
func scC13Muxer(r *Run) { runC09(r, []string{"ll", "ll", "fmp4", "mpegts"}, "c13") }

func runC09(r *Run, variants []string, mode string) {
	llLog := mode == "c11ll"
	T := r.T
	g := &muxGen{variants: variants, minCalls: 150, maxCalls: 900, paramChanges: false, noMidGOP: T.Chance(1, 2), negativeStart: false,
		keyEvery: Pick(T, 0, 5, 10, 15, 30), constLeading: T.Chance(2, 3)}
	cfg := genMuxCfg(r, g)
	if cfg.segMin < 200*time.Millisecond {
		cfg.segMin = Pick(T, 200*time.Millisecond, 500*time.Millisecond, time.Second)
	}
	if cfg.segMin > 2*time.Second {
		cfg.segMin = 2 * time.Second
	}
	script := genScript(r, cfg, g)
	w, err := newMuxWorld(r, cfg, script)
	if err != nil {
		r.Probe("start-error")
		return
	}
	// wall clock: exact mapping ntp = base + dts (the segmentation is not known to the oracle)
	lt := cfg.leadingTrack()
	durOf := func(v int64, clock int) time.Duration {
		n := new(big.Int).Mul(big.NewInt(v), big.NewInt(int64(time.Second)))
		return time.Duration(n.Quo(n, big.NewInt(int64(clock))).Int64())
	}
	ntpBase := script[0].ntp.Add(-durOf(script[0].pts, script[0].track.clock))
	for _, cl := range script {
		cl.ntp = ntpBase.Add(durOf(cl.pts, cl.track.clock))
		for _, u := range cl.units {
			u.ntpUnix = cl.ntp.UnixNano() + int64(durOf(u.dts-cl.units[0].dts, cl.track.clock))
		}
	}
	r.Arm("rotate.afterBroadcast")
	tr := newSimTransport(r)
	org := &muxOrigin{r: r, w: w, tr: tr}
	lat := Pick(T, 0, 10, 100, 500, 2000)
	spots := map[int]bool{}
	if mode == "c13" {
		for k := T.Range(1, 3); k > 0; k-- {
			spots[T.Range(0, 40)] = true
		}
	}
	fate := func(nr *netReq) *netFate {
		f := &netFate{latency: time.Duration(T.Range(0, lat)) * time.Millisecond / 2, back: time.Duration(T.Range(0, lat)) * time.Millisecond / 2}
		if spots[nr.id] {
			f.fault = "mutate"
			f.mutation = func(path string, body []byte) []byte { return damage(T, path, body) }
			r.FaultConf("mutate")
		}
		return f
	}
	primary := "http://mux.example/stream/index.m3u8"
	useMediaPrimary := T.Chance(1, 4) && (cfg.vname == "mpegts" || len(cfg.tracks) == 1)
	if useMediaPrimary {
		primary = "http://mux.example/stream/" + guessStreamURIs(cfg)[0]
	}
	if T.Chance(1, 3) {
		q := Pick(T, "token=s3cret", "a=1&b=x+y", "t=%C3%A9%2F")
		primary += "?" + q
		org.needQuery, _ = url.ParseQuery(q)
	}
	cw := newCliWorld(r, org, primary, fate)
	cw.net.tr = tr
	cw.c.HTTPClient = &http.Client{Transport: tr}

	// writer pacing: each call at its media time (relative to the first call), with jitter and stalls
	t0sec := float64(script[0].pts) / float64(script[0].track.clock)
	stallAt := -1
	if T.Chance(1, 4) {
		stallAt = T.Intn(len(script))
	}
	stall := time.Duration(T.Range(200, 3000)) * time.Millisecond
	extra := time.Duration(0)
	var lastAt time.Duration
	writeErr := false
	for i, cl := range script {
		cl := cl
		at := time.Duration((float64(cl.pts)/float64(cl.track.clock) - t0sec) * float64(time.Second))
		if at < 0 {
			at = 0
		}
		at += time.Duration(T.Range(0, 20)) * time.Millisecond
		if i == stallAt {
			extra += stall
		}
		at += extra
		if at < lastAt {
			at = lastAt
		}
		lastAt = at
		cw.net.schedule(at, "custom", nil, func() {
			if writeErr {
				return
			}
			w.next = cl.idx + 1
			// the write runs on the writer task and pauses after every broadcast until the woken
			// request handlers are at rest (exact repeatability of multi-rotation writes)
			w.writer.Start(func() {
				cl.err = w.doWrite(cl)
				cl.done = true
			})
			for i := 0; i < 64 && w.writer.Parked() != ""; i++ {
				w.writer.Resume()
			}
			if cl.err != nil {
				writeErr = true
				w.script = w.script[:cl.idx]
				r.Tracef("write %d error: %v", cl.idx, cl.err)
			}
		})
	}
	endOfWrites := lastAt
	// attach the client at a chosen moment
	attachAt := time.Duration(T.Range(0, int(endOfWrites/time.Millisecond*2/3)+1)) * time.Millisecond
	cw.limit = endOfWrites + 20*time.Second
	cw.afterWait = 500 * time.Millisecond
	r.Tracef("config %s calls=%d lat=%d attach=%v writes-until=%v primary=%s", cfg, len(script), lat, attachAt, endOfWrites, primary)

	// run: like cliWorld.run, but the client starts at attachAt
	started := false
	cw.net.schedule(attachAt, "custom", nil, func() {
		if err := cw.c.Start(); err != nil {
			r.Tracef("client Start error: %v", err)
			return
		}
		started = true
		cw.started = true
		cw.startWaiter()
	})
	for {
		syncWait()
		next := cw.net.pump()
		r.Step()
		now := r.Now()
		end := cw.limit
		if cw.waitSeen && cw.waitAt+cw.afterWait < end && now >= endOfWrites {
			end = cw.waitAt + cw.afterWait
		}
		if cw.waitSeen && now < endOfWrites {
			// the client ended while the stream is still being written: stop early
			end = now
		}
		if now >= end {
			break
		}
		target := end
		if next >= 0 && next < target {
			target = next
		}
		cw.net.waitUntil(target)
	}
	r.Tracef("end: started=%v wait=%v err=%s requests=%d tracks=%d", started, cw.waitSeen, describeErr(cw.waitErr), len(cw.net.log), len(cw.tracks))
	if mode == "c13" {
		// no panic (the process is still here), no wedge, Close honoured
		if !cw.waitSeen && started {
			pacing, pendingNet := false, false
			for _, g := range clientGoroutines() {
				if strings.Contains(g, "handleData") || strings.Contains(g, "verifsim.(*Run).Hook") {
					pacing = true
				}
			}
			for _, nr := range cw.net.log {
				if !nr.delivered && !nr.cancelled {
					pendingNet = true
				}
			}
			if !pacing && !pendingNet {
				first := ""
				if gs := clientGoroutines(); len(gs) > 0 {
					first = gs[0]
				}
				r.Fail("wedge", "silent-stall-muxer-origin", "the client neither ended nor is it pacing samples or waiting for a response after %d requests; one of its goroutines:\n%s", len(cw.net.log), first)
			}
		}
		if !r.Failed() && started {
			cw.closeClient()
			for i := 0; i < 3; i++ {
				syncWait()
				cw.net.pump()
			}
			r.SettleHolds()
			syncWait()
			if !cw.waitSeen {
				r.Fail("close", "not-honoured", "after Close, Wait yielded nothing")
			} else if gs := clientGoroutines(); len(gs) > 0 {
				r.Fail("close", "goroutine-leak", "after Close and Wait, %d client goroutine(s) remain; first:\n%s", len(gs), gs[0])
			}
		}
	} else if llLog {
		oracleC11LL(r, cw)
	} else {
		oracleC09(r, cw, w, cfg, lt, useMediaPrimary, endOfWrites)
	}
	if mode != "c13" && org.queryLost != "" && !r.Failed() {
		r.Fail("request", "query-lost", "the primary URL carries the query %q, which the muxer repeats in every URI it writes, but the client requested %s", org.needQuery.Encode(), org.queryLost)
	}
	if org.needQuery != nil {
		r.Probe("primary-url-with-query")
	}
	r.Stats.NonTrivial = cw.onTracksN > 0
	r.Cell("c09 %s lead=%s tracks=%d", cfg.vname, lt.kind, len(cfg.tracks))
	cw.finish()
	w.finish()
}

func oracleC09(r *Run, cw *cliWorld, w *muxWorld, cfg *muxCfg, lt *trackSpec, mediaPrimary bool, endOfWrites time.Duration) {
	cw.mu.Lock()
	tracks := cw.tracks
	deliveries := cw.deliveries
	cw.mu.Unlock()
	legitStop := map[string]bool{
		"there aren't enough segments to fill the buffer": true,
		"next segment not found or not ready yet":         true,
		"playback is too late":                            true,
		"terminated":                                      true,
	}
	// a client that is slower than the window (network latency) runs into URIs that have expired: the muxer
	// answers those with an empty body, after which the session is legitimately broken
	fellOut := false
	emptyMedia := false
	firstSegLacksTrack := false
	firstSegLen := -1
	for _, nr := range cw.net.log {
		if nr.delivered && nr.resp != nil && !strings.Contains(nr.url, ".m3u8") {
			if len(nr.resp.body) == 0 {
				fellOut = true
			}
			// a part/segment of a stream that received no unit in that interval carries no sample; the client
			// stops with an error on it, which C13 accepts ("ends with an error from Wait")
			if strings.HasSuffix(stripQuery(nr.url), ".mp4") && !strings.Contains(nr.url, "_init") {
				var parts fmp4.Parts
				if parts.Unmarshal(nr.resp.body) == nil {
					n := 0
					for _, p := range parts {
						for _, t := range p.Tracks {
							n += len(t.Samples)
						}
					}
					if n == 0 {
						emptyMedia = true
					}
				}
			}
			if firstSegLen < 0 && strings.HasSuffix(stripQuery(nr.url), ".ts") {
				firstSegLen = len(nr.resp.body)
				// does the first segment carry data of every track its PMT declares? (own demultiplexer)
				if smp, trks, _, err := decodeTS(nr.resp.body); err == nil {
					have := map[int]bool{}
					for _, x := range smp {
						have[x.track] = true
					}
					for i := range trks {
						if !have[i] {
							firstSegLacksTrack = true
						}
					}
				}
			}
		}
	}
	if fellOut {
		r.Probe("client-fell-out-of-window")
	}
	if emptyMedia {
		r.Probe("muxer-published-media-without-samples")
		if cw.waitSeen && cw.waitErr != nil && cw.waitErr.Error() == "could not find data of leading track" {
			fellOut = true
		}
	}
	if cw.waitSeen && cw.waitErr != nil && !legitStop[cw.waitErr.Error()] && !fellOut {
		if cw.waitErr.Error() == "astits: no more packets" && firstSegLen > 0 && (firstSegLen <= 4*188 || firstSegLacksTrack) {
			r.Fail("unexpected-error", "mpegts-reader-cannot-initialise-on-first-segment", "the client cannot initialise its MPEG-TS reader on the first segment it downloads (%d bytes; a declared track without data in it: %v): %s",
				firstSegLen, firstSegLacksTrack, describeErr(cw.waitErr))
			return
		}
		// a non-leading unit written with a timestamp far ahead of the leading units written around it is input that
		// is not synchronised; the client's 10 s limit between decode time and real time then ends playback by design
		// renditions fetch their playlists at different moments: when one of them starts a segment later than the
		// leading stream and segments last many seconds (sparse key frames), its first units lie more than the
		// client's 10 s limit ahead of the leading stream's clock
		if cw.waitErr.Error() == "difference between DTS and RTC is too big" {
			first := map[string]int{}
			maxDur := time.Duration(0)
			for _, nr := range cw.net.log {
				if !nr.delivered || nr.resp == nil || nr.resp.status != 200 {
					continue
				}
				path := nr.req.URL.Path
				if strings.HasSuffix(path, "_stream.m3u8") {
					if pl, err := parseMediaPlaylist(nr.resp.body); err == nil {
						for _, sg := range pl.Segments {
							if sg.Duration > maxDur {
								maxDur = sg.Duration
							}
						}
					}
				} else if i := strings.Index(path, "_seg"); i >= 0 {
					stream := path[:i]
					if _, ok := first[stream]; !ok {
						first[stream] = uriNumber(path)
					}
				}
			}
			differ := false
			for _, a := range first {
				for _, b := range first {
					if a != b {
						differ = true
					}
				}
			}
			if differ && maxDur >= 4*time.Second {
				r.Probe("rendition-started-a-long-segment-later")
				return
			}
		}
		if skew := maxInputSkew(w.script); cw.waitErr.Error() == "difference between DTS and RTC is too big" && skew > 9*time.Second {
			r.Probe("input-skew-beyond-sync-limit")
			return
		}
		// status 500 at the very beginning is what a muxer without content would never send; anything else is unexpected
		r.Fail("unexpected-error", errKey(cw.waitErr.Error()), "the client reading this library's own muxer (%s) ended with %s", cfg, describeErr(cw.waitErr))
		return
	}
	if cw.onTracksN == 0 {
		return
	}
	// expected track list: leading stream first, then the audio renditions in track order (fMP4); PMT order (MPEG-TS)
	var expect []*trackSpec
	if cfg.vname == "mpegts" {
		expect = cfg.tracks
	} else if mediaPrimary {
		expect = []*trackSpec{lt}
	} else {
		expect = append(expect, lt)
		for _, ts := range cfg.tracks {
			if ts != lt {
				expect = append(expect, ts)
			}
		}
	}
	if len(tracks) != len(expect) {
		var got []string
		for _, t := range tracks {
			got = append(got, codecKind(t.Codec))
		}
		r.Fail("tracks", "count", "the client reports tracks %v, the muxer has %d tracks (%s)", got, len(expect), cfg)
		return
	}
	anyMarked := false
	firstRend := -1
	for i, ts := range expect {
		if !ts.video && (ts != lt || len(cfg.tracks) > 1) && cfg.vname != "mpegts" {
			if ts.isDef {
				anyMarked = true
			}
			_ = i
		}
	}
	for _, ts := range cfg.tracks {
		if !ts.video && (ts != lt || len(cfg.tracks) > 1) && firstRend < 0 {
			firstRend = ts.id
		}
	}
	for i, ts := range expect {
		ct := tracks[i]
		if k := codecKind(ct.Codec); k != ts.kind {
			r.Fail("tracks", "codec", "track %d is reported as %s, the muxer's track is %s", i, k, ts.kind)
			return
		}
		wantRate := ts.clock
		if cfg.vname == "mpegts" {
			wantRate = 90000
		}
		if ct.ClockRate != wantRate {
			r.Fail("tracks", "clock-rate", "track %d (%s) has clock rate %d, expected %d", i, ts.kind, ct.ClockRate, wantRate)
			return
		}
		if cfg.vname != "mpegts" {
			// same codec parameters
			ok := true
			switch c := ct.Codec.(type) {
			case *codecs.H264:
				ok = string(c.SPS) == string(ts.initial.sps) && string(c.PPS) == string(ts.initial.pps)
			case *codecs.H265:
				ok = string(c.SPS) == string(ts.initial.sps) && string(c.PPS) == string(ts.initial.pps) && string(c.VPS) == string(ts.initial.vps)
			case *codecs.VP9:
				ok = c.Width == ts.initial.vp9W && c.Height == ts.initial.vp9H && c.Profile == ts.initial.vp9Profile
			case *codecs.AV1:
				ok = string(c.SequenceHeader) == string(ts.initial.seqHdr)
			case *codecs.MPEG4Audio:
				ok = c.Config.SampleRate == ts.aacRate
			}
			if !ok {
				r.Fail("tracks", "codec-params", "track %d (%s): codec parameters differ from the muxer's", i, ts.kind)
				return
			}
			// rendition attributes (non-leading streams)
			if ts != lt && !mediaPrimary {
				if ts.name != "" && ct.Name != ts.name {
					r.Fail("tracks", "rendition-name", "track %d: name %q, the muxer's track is named %q", i, ct.Name, ts.name)
					return
				}
				if ct.Language != ts.lang {
					r.Fail("tracks", "rendition-language", "track %d: language %q, the muxer's track has %q", i, ct.Language, ts.lang)
					return
				}
				wantDef := ts.isDef
				if !anyMarked {
					wantDef = ts.id == firstRend
				}
				if ct.IsDefault != wantDef {
					r.Fail("tracks", "rendition-default", "track %d: default=%v, the muxer advertised %v", i, ct.IsDefault, wantDef)
					return
				}
			}
		}
	}
	// deliveries
	byPay := map[string]*unit{}
	for _, ts := range cfg.tracks {
		for _, u := range ts.units {
			byPay[string(u.payload)] = u
		}
	}
	// origin: DTS of the first delivered unit of the leading track
	li := 0
	for i, ts := range expect {
		if ts == lt {
			li = i
		}
	}
	var t0 *unit
	if len(deliveries[li]) > 0 {
		t0 = byPay[deliveredKey(lt.kind, deliveries[li][0].data)]
	}
	for i, ts := range expect {
		prev := -1
		for gi, d := range deliveries[i] {
			// MPEG-TS audio: one callback may carry several access units
			var keys []string
			if cfg.vname == "mpegts" && ts.kind == "aac" {
				for _, au := range d.data {
					keys = append(keys, string(au))
				}
			} else {
				keys = []string{deliveredKey(ts.kind, d.data)}
			}
			for ki, k := range keys {
				u := byPay[k]
				if u == nil || u.track != ts.id {
					r.Fail("delivery", "stranger", "track %d (%s): delivery %d is not byte-identical to any unit written to that track", i, ts.kind, gi)
					return
				}
				if prev >= 0 && u.idx <= prev {
					r.Fail("delivery", "repeated-or-reordered", "track %d (%s): delivery %d is written unit %d after unit %d", i, ts.kind, gi, u.idx, prev)
					return
				}
				if prev >= 0 && u.idx != prev+1 && cfg.vname != "ll" {
					r.Fail("delivery", "gap", "track %d (%s): delivery %d is written unit %d, the previous one was unit %d (%s)", i, ts.kind, gi, u.idx, prev, cfg.vname)
					return
				}
				if prev >= 0 && u.idx != prev+1 {
					r.Probe("ll-gap")
				}
				prev = u.idx
				if ki > 0 || t0 == nil {
					continue
				}
				// timestamps relative to the first delivered leading unit
				rate := int64(ct(tracks[i]))
				num := func(v int64, clock int) *big.Rat { return new(big.Rat).SetFrac64(v*rate, int64(clock)) }
				wantPTS := new(big.Rat).Sub(num(u.pts, ts.clock), num(t0.dts, lt.clock))
				wantDTS := new(big.Rat).Sub(num(u.dts, ts.clock), num(t0.dts, lt.clock))
				tol := big.NewRat(3, 2)
				if cfg.vname == "mpegts" && ts.clock != 90000 {
					tol = big.NewRat(5, 2)
				}
				if diff := new(big.Rat).Abs(new(big.Rat).Sub(new(big.Rat).SetInt64(d.pts), wantPTS)); diff.Cmp(tol) > 0 {
					f, _ := wantPTS.Float64()
					r.Fail("timestamp", "pts", "track %d (%s): delivery %d (unit %d) has PTS %d, written PTS minus the first delivered leading DTS is %.2f", i, ts.kind, gi, u.idx, d.pts, f)
					return
				}
				if d.hasDTS {
					if diff := new(big.Rat).Abs(new(big.Rat).Sub(new(big.Rat).SetInt64(d.dts), wantDTS)); diff.Cmp(tol) > 0 {
						f, _ := wantDTS.Float64()
						r.Fail("timestamp", "dts", "track %d (%s): delivery %d (unit %d) has DTS %d, expected %.2f", i, ts.kind, gi, u.idx, d.dts, f)
						return
					}
				}
				if d.hasNTP {
					want := time.Unix(0, u.ntpUnix)
					if diff := d.ntp.Sub(want); diff > 3*time.Millisecond || diff < -3*time.Millisecond {
						r.Fail("absolute-time", "mismatch", "track %d (%s): delivery %d (unit %d) has AbsoluteTime %v, the wall-clock time it was written with is %v", i, ts.kind, gi, u.idx,
							d.ntp.UTC().Format(time.RFC3339Nano), want.UTC().Format(time.RFC3339Nano))
						return
					}
					r.Probe("absolute-time-checked")
				}
			}
		}
		if len(deliveries[i]) > 0 {
			r.Probe("track-delivered-" + cfg.vname)
		}
	}
}

func ct(t *gohlslib.Track) int { return t.ClockRate }

// maxInputSkew is the largest distance by which a non-leading call's media time runs ahead of the latest leading
// call written before it.
func maxInputSkew(script []*writeCall) time.Duration {
	var maxSkew time.Duration
	lead := time.Duration(-1)
	for _, cl := range script {
		t := time.Duration(float64(cl.pts) / float64(cl.track.clock) * float64(time.Second))
		if cl.track.leading {
			lead = t
		} else if lead >= 0 && t-lead > maxSkew {
			maxSkew = t - lead
		}
	}
	return maxSkew
}

func errKey(msg string) string {
	msg = strings.ToLower(msg)
	for _, k := range []string{"bad status code", "no variants", "decode", "invalid", "unmarshal", "too big", "leading track", "not supported"} {
		if strings.Contains(msg, k) {
			return strings.ReplaceAll(k, " ", "-")
		}
	}
	if len(msg) > 24 {
		msg = msg[:24]
	}
	return fmt.Sprintf("%q", msg)
}

func init() {
	register(&PropDef{ID: "C09", Quick: 1500, Thorough: 100000, Profiles: []ProfileDef{{Name: "muxer-origin", Share: 1, Sc: scC09}}})
}

// oracleC11LL: in Low-Latency mode the client downloads the preload hint of each successive playlist, and asks
// for delta updates exactly when CAN-SKIP-UNTIL was advertised.
func oracleC11LL(r *Run, cw *cliWorld) {
	type st struct {
		first     *mediaPL
		expected  string // absolute URL of the hint the client must download next ("" = a playlist is due)
		hints     int
		playlists int
	}
	streams := map[string]*st{}
	for _, nr := range cw.net.log {
		u := nr.req.URL
		path := u.Path
		switch {
		case strings.HasSuffix(path, "index.m3u8"):
		case strings.HasSuffix(path, ".m3u8"):
			s := streams[path]
			if s == nil {
				s = &st{}
				streams[path] = s
			}
			if !nr.delivered || nr.resp == nil || nr.resp.status != 200 {
				continue
			}
			if s.expected != "" {
				r.Fail("ll-request-log", "playlist-without-hint", "stream %s: the playlist was fetched again although the preload hint %s of the previous one was never requested", path, s.expected)
				return
			}
			pl, err := parseMediaPlaylist(nr.resp.body)
			if err != nil {
				r.Fail("grammar", "media-playlist", "%v", err)
				return
			}
			if s.first == nil {
				s.first = pl
			} else {
				wantSkip := s.first.HasCanSkip
				gotSkip := u.Query().Get("_HLS_skip") == "YES"
				if wantSkip != gotSkip {
					r.Fail("ll-request-log", "delta-update", "stream %s: CAN-SKIP-UNTIL advertised=%v but the playlist reload %s asks for a delta update=%v", path, wantSkip, nr.url, gotSkip)
					return
				}
				r.Probe("ll-reload-checked")
			}
			s.playlists++
			if !pl.HasPreload {
				continue
			}
			ref, err := u.Parse(pl.PreloadHint)
			if err != nil {
				continue
			}
			s.expected = ref.String()
		case strings.Contains(path, "_init"):
		default:
			matched := false
			for sp, s := range streams {
				if s.expected != "" && s.expected == nr.url {
					s.expected = ""
					s.hints++
					matched = true
					r.Probe("ll-hint-download-checked")
					_ = sp
					break
				}
			}
			if !matched {
				r.Fail("ll-request-log", "unhinted-download", "the client requested %s, which is not the preload hint of the latest playlist of any stream", nr.url)
				return
			}
		}
	}
}
