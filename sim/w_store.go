package sim

import (
	"bytes"
	"fmt"
	"io"
	"os"
	"path/filepath"
	"runtime"
	"strings"
	"sync/atomic"

	"github.com/bluenviron/gohlslib/v2/pkg/storage"
)

// W-STORE (C17): operation histories over a RAM-backed and a disk-backed File in
// lock-step, every observable result compared with a byte-slice model.

type stPart struct {
	model []byte
	pos   int
	ram   storage.Part
	disk  storage.Part
	ramW  io.WriteSeeker
	diskW io.WriteSeeker
}

type stReader struct {
	name   string
	want   []byte // model snapshot at open time
	pos    [2]int
	rc     [2]io.ReadCloser
	eof    [2]bool
	stalls [2]int
}

func scStore(r *Run) {
	T := r.T
	dir, err := os.MkdirTemp("", "verif-c17-")
	if err != nil {
		panic(err)
	}
	r.Cleanup(func() { os.RemoveAll(dir) })

	facR := storage.NewFactoryRAM()
	facD := storage.NewFactoryDisk(dir)
	fname := fmt.Sprintf("f%d.bin", T.Intn(3))
	if T.Chance(1, 4) {
		// a file of that name is left over from an earlier session, longer than what will be written now
		junk := bytes.Repeat([]byte{0x5a}, Pick(T, 10, 5000, 200000))
		if err := os.WriteFile(filepath.Join(dir, fname), junk, 0o644); err != nil {
			panic(err)
		}
		r.Probe("stale-file-of-the-same-name")
	}
	fr, err := facR.NewFile(fname)
	if err != nil {
		r.Fail("newfile", "ram", "NewFile: %v", err)
		return
	}
	fd, err := facD.NewFile(fname)
	if err != nil {
		r.Fail("newfile", "disk", "NewFile: %v", err)
		return
	}
	files := [2]storage.File{fr, fd}
	names := [2]string{"ram", "disk"}

	var parts []*stPart
	var readers []*stReader
	finalized, removed := false, false
	maxOps := T.Range(3, 60)
	bufSizes := []int{0, 1, 2, 3, 7, 64, 1000, 4096, 65536}
	ctr := byte(T.Intn(251))
	gen := func(n int) []byte {
		b := make([]byte, n)
		for i := range b {
			ctr = ctr*31 + 7
			b[i] = ctr
		}
		return b
	}
	totalModel := func() []byte {
		var all []byte
		for _, p := range parts {
			all = append(all, p.model...)
		}
		return all
	}
	reads, writes := 0, 0

	readStep := func(rd *stReader, k int, n int) {
		// one Read call on backend k with a buffer of n bytes
		buf := make([]byte, n)
		got, err := rd.rc[k].Read(buf)
		reads++
		if got < 0 || got > n {
			r.Fail("read-contract", names[k], "%s: Read(%d) returned n=%d", rd.name, n, got)
			return
		}
		end := rd.pos[k] + got
		if end > len(rd.want) || !bytes.Equal(buf[:got], rd.want[rd.pos[k]:end]) {
			r.Fail("read-bytes", names[k]+":"+kindOf(rd.name), "%s: Read(%d) at offset %d returned %d byte(s) that differ from what was written (model has %d bytes)",
				rd.name, n, rd.pos[k], got, len(rd.want))
			return
		}
		rd.pos[k] = end
		if err == io.EOF {
			rd.eof[k] = true
			if rd.pos[k] != len(rd.want) {
				r.Fail("read-short", names[k]+":"+kindOf(rd.name), "%s: EOF after %d of %d bytes", rd.name, rd.pos[k], len(rd.want))
			}
			return
		}
		if err != nil {
			r.Fail("read-error", names[k]+":"+kindOf(rd.name), "%s: Read: %v", rd.name, err)
			return
		}
		if got == 0 && n > 0 {
			rd.stalls[k]++
			if rd.stalls[k] > 50 {
				r.Fail("read-stall", names[k], "%s: Read keeps returning (0, nil)", rd.name)
			}
		}
	}
	drain := func(rd *stReader) {
		for k := 0; k < 2 && !r.Failed(); k++ {
			for i := 0; i < 200000 && !rd.eof[k] && !r.Failed(); i++ {
				readStep(rd, k, 4096)
			}
			if !r.Failed() && !rd.eof[k] {
				r.Fail("read-stall", names[k], "%s: no EOF", rd.name)
			}
		}
	}
	openPart := func(i int, label string) *stReader {
		p := parts[i]
		rd := &stReader{name: fmt.Sprintf("part%d-%s", i, label), want: append([]byte(nil), p.model...)}
		for k, sp := range [2]storage.Part{p.ram, p.disk} {
			rc, err := sp.Reader()
			if err != nil {
				r.Fail("part-reader-open", names[k], "part %d (%s): Reader: %v", i, label, err)
				return nil
			}
			rd.rc[k] = rc
		}
		return rd
	}

	// a neighbour: the same factories serve other files at the same time (in the muxer: the segments of other
	// streams and the next segment of this one). Its content is of another pattern and is checked at the end.
	var nbFiles [2]storage.File
	var nbParts [][2]storage.Part
	var nbModel []byte
	nbFinal := false
	nbCtr := byte(T.Intn(251))
	neighbour := func() {
		if nbFiles[0] == nil {
			n0, err0 := facR.NewFile("neighbour.bin")
			n1, err1 := facD.NewFile("neighbour.bin")
			if err0 != nil || err1 != nil {
				r.Fail("newfile", "neighbour", "NewFile: %v %v", err0, err1)
				return
			}
			nbFiles = [2]storage.File{n0, n1}
		}
		if nbFinal {
			// start over with a fresh neighbour
			nbFiles[0].Remove()
			nbFiles[1].Remove()
			nbFiles, nbParts, nbModel, nbFinal = [2]storage.File{}, nil, nil, false
			return
		}
		switch T.Intn(4) {
		case 0:
			nbFiles[0].Finalize()
			nbFiles[1].Finalize()
			nbFinal = true
			for k, f := range nbFiles {
				rc, err := f.Reader()
				if err != nil {
					r.Fail("file-reader-open", "neighbour:"+names[k], "%v", err)
					return
				}
				got, err := io.ReadAll(rc)
				rc.Close()
				if err != nil || !bytes.Equal(got, nbModel) {
					r.Fail("read-bytes", names[k]+":neighbour", "the neighbour file reads back %d bytes (err %v), %d were written, or other content", len(got), err, len(nbModel))
					return
				}
			}
			r.Probe("neighbour-file-verified")
		default:
			pr := [2]storage.Part{nbFiles[0].NewPart(), nbFiles[1].NewPart()}
			nbParts = append(nbParts, pr)
			n := Pick(T, 1, 5, 100, 1000, 5000)
			data := make([]byte, n)
			for i := range data {
				nbCtr = nbCtr*17 + 3
				data[i] = nbCtr ^ 0xa5
			}
			for k := range pr {
				if _, err := pr[k].Writer().Write(data); err != nil {
					r.Fail("write", "neighbour:"+names[k], "%v", err)
					return
				}
			}
			nbModel = append(nbModel, data...)
		}
	}
	defer func() {
		if nbFiles[0] != nil {
			nbFiles[0].Remove()
			nbFiles[1].Remove()
		}
	}()

	for op := 0; op < maxOps && !r.Failed(); op++ {
		var acts []Action
		last := len(parts) - 1
		acts = append(acts, Action{"neighbour-file-activity", 2, neighbour})
		leftover := func(when string) {
			es, _ := os.ReadDir(dir)
			for _, e := range es {
				if strings.HasPrefix(e.Name(), fname) {
					r.Fail("remove", "disk-leftover", "after Remove (%s) the directory still holds %s", when, e.Name())
				}
			}
		}
		if !finalized && !removed && len(parts) > 0 {
			// the muxer removes the segment it was still writing when it is closed: Remove without Finalize
			acts = append(acts, Action{"remove-before-finalize", 1, func() {
				files[0].Remove()
				files[1].Remove()
				removed = true
				leftover("without Finalize")
				r.Probe("removed-before-finalize")
			}})
		}
		if !finalized && !removed {
			acts = append(acts, Action{"newpart", 3, func() {
				p := &stPart{}
				p.ram, p.disk = files[0].NewPart(), files[1].NewPart()
				p.ramW, p.diskW = p.ram.Writer(), p.disk.Writer()
				parts = append(parts, p)
			}})
			if last >= 0 {
				p := parts[last]
				acts = append(acts, Action{"write", 8, func() {
					n := Pick(T, 0, 1, 2, 5, 13, 100, 1000, 5000, 70000)
					data := gen(n)
					for k, w := range [2]io.WriteSeeker{p.ramW, p.diskW} {
						got, err := w.Write(data)
						if err != nil || got != n {
							r.Fail("write", names[k], "Write(%d) = %d, %v", n, got, err)
							return
						}
					}
					end := p.pos + n
					if end > len(p.model) {
						p.model = append(p.model, make([]byte, end-len(p.model))...)
					}
					copy(p.model[p.pos:], data)
					p.pos = end
					writes++
					r.Sig(fmt.Sprintf("w%d@%d", n, p.pos))
					if p.pos < len(p.model) {
						r.Probe("rewrite-inside-part")
					}
				}})
				acts = append(acts, Action{"seek", 4, func() {
					var whence int
					var off, np int64
					if T.Chance(1, 2) {
						whence = io.SeekStart
						np = int64(T.Range(0, len(p.model)))
						off = np
					} else {
						whence = io.SeekCurrent
						np = int64(T.Range(0, len(p.model)))
						off = np - int64(p.pos)
					}
					for k, w := range [2]io.WriteSeeker{p.ramW, p.diskW} {
						got, err := w.Seek(off, whence)
						if err != nil || got != np {
							r.Fail("seek", names[k], "Seek(%d,%d) = %d, %v; want %d", off, whence, got, err, np)
							return
						}
					}
					p.pos = int(np)
					r.Sig(fmt.Sprintf("s%d", np))
				}})
				acts = append(acts, Action{"snapshot-read-open-part", 2, func() {
					rd := openPart(last, "open")
					if rd != nil {
						drain(rd)
						rd.rc[0].Close()
						rd.rc[1].Close()
					}
				}})
			}
			acts = append(acts, Action{"file-reader-before-finalize", 1, func() {
				for k, f := range files {
					rc, err := f.Reader()
					if err == nil {
						rc.Close()
						r.Fail("file-readable-before-finalize", names[k], "File.Reader succeeded before Finalize")
					}
				}
				r.Probe("file-reader-before-finalize")
			}})
			acts = append(acts, Action{"finalize", 2, func() {
				files[0].Finalize()
				files[1].Finalize()
				finalized = true
			}})
		}
		// readers on complete parts (a later part exists, or the file is final)
		for i := range parts {
			i := i
			if i < last || finalized {
				if removed {
					continue // after Remove only existing readers are used
				}
				acts = append(acts, Action{fmt.Sprintf("open-part-reader %d", i), 2, func() {
					label := "prefinal"
					if finalized {
						label = "final"
					}
					if rd := openPart(i, label); rd != nil {
						readers = append(readers, rd)
					}
				}})
			}
		}
		if finalized && !removed {
			acts = append(acts, Action{"open-file-reader", 4, func() {
				rd := &stReader{name: "file", want: totalModel()}
				for k, f := range files {
					rc, err := f.Reader()
					if err != nil {
						r.Fail("file-reader-open", names[k], "File.Reader after Finalize: %v", err)
						return
					}
					rd.rc[k] = rc
				}
				readers = append(readers, rd)
			}})
			acts = append(acts, Action{"size", 2, func() {
				want := uint64(len(totalModel()))
				for k, f := range files {
					if got := f.Size(); got != want {
						r.Fail("size", names[k], "Size() = %d, want %d", got, want)
					}
				}
			}})
		}
		if finalized && !removed {
			acts = append(acts, Action{"remove", 1, func() {
				files[0].Remove()
				files[1].Remove()
				removed = true
				if _, err := os.Stat(filepath.Join(dir, fname)); err == nil {
					r.Fail("remove", "disk", "file still exists after Remove")
				}
				leftover("after Finalize")
				if len(readers) > 0 {
					r.Probe("readers-alive-across-remove")
				}
			}})
		}
		for _, rd := range readers {
			rd := rd
			if rd.eof[0] && rd.eof[1] {
				continue
			}
			acts = append(acts, Action{"copy " + rd.name, 1, func() {
				// the way an HTTP handler consumes a reader: io.Copy (which prefers WriterTo / ReaderFrom fast paths)
				for k := 0; k < 2 && !r.Failed(); k++ {
					if rd.eof[k] {
						continue
					}
					var buf bytes.Buffer
					_, err := io.Copy(&buf, rd.rc[k])
					rest := rd.want[rd.pos[k]:]
					if err != nil || !bytes.Equal(buf.Bytes(), rest) {
						r.Fail("read-bytes", names[k]+":"+kindOf(rd.name)+":copy", "%s: io.Copy from offset %d delivered %d bytes (err %v), %d were left to read, or other content",
							rd.name, rd.pos[k], buf.Len(), err, len(rest))
						return
					}
					rd.pos[k], rd.eof[k] = len(rd.want), true
				}
				reads++
			}})
			acts = append(acts, Action{"read " + rd.name, 3, func() {
				n := bufSizes[T.Intn(len(bufSizes))]
				for k := 0; k < 2 && !r.Failed(); k++ {
					if !rd.eof[k] {
						readStep(rd, k, n)
					}
				}
				r.Sig(fmt.Sprintf("r%d", n))
				if removed {
					r.Probe("read-after-remove")
				}
				if finalized && kindOf(rd.name) == "part-prefinal" {
					r.Probe("prefinal-part-reader-read-after-finalize")
				}
			}})
		}
		r.Choose(acts)
	}

	// end of history: everything still open must deliver the rest of its bytes
	for _, rd := range readers {
		if r.Failed() {
			break
		}
		drain(rd)
	}
	for _, rd := range readers {
		for k := 0; k < 2; k++ {
			if rd.rc[k] != nil {
				rd.rc[k].Close()
			}
		}
	}
	if !r.Failed() && !finalized {
		files[0].Finalize()
		files[1].Finalize()
		finalized = true
	}
	if !r.Failed() && finalized && !removed {
		// final equivalence: file reader and size on both back ends
		want := totalModel()
		rd := &stReader{name: "file-final", want: want}
		ok := true
		for k, f := range files {
			rc, err := f.Reader()
			if err != nil {
				r.Fail("file-reader-open", names[k], "File.Reader after Finalize: %v", err)
				ok = false
				break
			}
			rd.rc[k] = rc
		}
		if ok {
			drain(rd)
			rd.rc[0].Close()
			rd.rc[1].Close()
			for k, f := range files {
				if got := f.Size(); got != uint64(len(want)) && !r.Failed() {
					r.Fail("size", names[k], "Size() = %d, want %d", got, len(want))
				}
			}
			for i := range parts {
				if r.Failed() {
					break
				}
				if p := openPart(i, "final"); p != nil {
					drain(p)
					p.rc[0].Close()
					p.rc[1].Close()
				}
			}
		}
		files[0].Remove()
		files[1].Remove()
		if _, err := os.Stat(filepath.Join(dir, fname)); err == nil && !r.Failed() {
			r.Fail("remove", "disk", "file still exists after Remove")
		}
	}
	r.Stats.NonTrivial = writes > 0 && reads > 0
	r.Cell("parts=%d", min(len(parts), 6))
	r.Cell("finalized=%v removed=%v", finalized, removed)
}

func kindOf(name string) string {
	switch {
	case len(name) >= 4 && name[:4] == "file":
		return "file"
	case len(name) > 5 && name[len(name)-5:] == "final" && !(len(name) > 8 && name[len(name)-8:] == "prefinal"):
		return "part-final"
	case len(name) > 8 && name[len(name)-8:] == "prefinal":
		return "part-prefinal"
	}
	return "part-open"
}

// scStoreRace: Finalize, Remove and readers on other goroutines, truly concurrent, under the race detector (C17:
// "readers opened before Finalize/Remove stay valid"). Several files per run; per file one step releases the
// finaliser and 2-6 readers that open and drain part readers as fast as they can. Every reader must return
// exactly the bytes of its part, whatever the instant of Finalize; judged at rest.
func scStoreRace(r *Run) {
	T := r.T
	dir, err := os.MkdirTemp("", "verif-c17r-")
	if err != nil {
		panic(err)
	}
	r.Cleanup(func() { os.RemoveAll(dir) })
	fac := []storage.Factory{storage.NewFactoryDisk(dir), storage.NewFactoryRAM()}[T.Intn(5)/4] // mostly disk
	nFiles := T.Range(3, 12)
	nReaders := T.Range(2, 6)
	var tasks []*Task
	for i := 0; i < nReaders; i++ {
		tasks = append(tasks, r.Go(fmt.Sprintf("reader%d", i)))
	}
	fin := r.Go("finaliser")
	defer r.StopTasks()
	type bad struct{ msg string }
	for fi := 0; fi < nFiles && !r.Failed(); fi++ {
		f, err := fac.NewFile(fmt.Sprintf("r%d.bin", fi))
		if err != nil {
			r.Fail("newfile", "race", "%v", err)
			return
		}
		nParts := T.Range(1, 5)
		var parts []storage.Part
		var models [][]byte
		for pi := 0; pi < nParts; pi++ {
			p := f.NewPart()
			n := Pick(T, 1, 7, 100, 4096, 20000)
			data := make([]byte, n)
			for i := range data {
				data[i] = byte(fi*31 + pi*7 + i)
			}
			if _, err := p.Writer().Write(data); err != nil {
				r.Fail("write", "race", "%v", err)
				return
			}
			parts = append(parts, p)
			models = append(models, data)
		}
		rounds := T.Range(1, 40)
		remove := T.Chance(1, 3)
		results := make([]*bad, nReaders)
		var whole []byte
		for _, m := range models {
			whole = append(whole, m...)
		}
		var finalized atomic.Bool
		r.Step()
		fin.StartNoWait(func() {
			for i := 0; i < rounds; i++ {
				runtime.Gosched()
			}
			f.Finalize()
			finalized.Store(true)
			if remove {
				for i := 0; i < rounds; i++ {
					runtime.Gosched()
				}
				f.Remove()
			}
		})
		for ti, t := range tasks {
			ti := ti
			t.StartNoWait(func() {
				for k := 0; k < 60 && results[ti] == nil; k++ {
					// once the file is final, several goroutines open and drain the whole file at the same time
					if wasFinal := finalized.Load(); wasFinal && k%2 == 0 {
						rc, err := f.Reader()
						if err != nil {
							if remove {
								return
							}
							results[ti] = &bad{fmt.Sprintf("file %d: Reader after Finalize: %v", fi, err)}
							return
						}
						got, err := io.ReadAll(rc)
						rc.Close()
						if err != nil && remove {
							return
						}
						if err != nil || !bytes.Equal(got, whole) {
							results[ti] = &bad{fmt.Sprintf("file %d: a file reader opened concurrently with others returned %d bytes (err %v), the parts hold %d", fi, len(got), err, len(whole))}
						}
						continue
					}
					pi := (ti + k) % len(parts)
					rc, err := parts[pi].Reader()
					if err != nil {
						if remove {
							return // opening after Remove may fail; readers opened before it must not
						}
						results[ti] = &bad{fmt.Sprintf("part %d: Reader: %v", pi, err)}
						return
					}
					got, err := io.ReadAll(rc)
					rc.Close()
					if err != nil && remove {
						return
					}
					if err != nil || !bytes.Equal(got, models[pi]) {
						results[ti] = &bad{fmt.Sprintf("part %d of file %d: a reader opened concurrently with Finalize returned %d bytes (err %v), the part holds %d", pi, fi, len(got), err, len(models[pi]))}
					}
				}
			})
		}
		syncWait()
		for _, b := range results {
			if b != nil {
				r.Fail("read-bytes", "race:part", "%s", b.msg)
				return
			}
		}
		if !remove {
			f.Remove()
		}
	}
	if es, _ := os.ReadDir(dir); len(es) > 0 && !r.Failed() {
		r.Fail("remove", "disk-leftover", "after every file was removed the directory still holds %d entries, e.g. %s", len(es), es[0].Name())
	}
	r.Stats.NonTrivial = true
	r.Probe("store-race-files")
}
