package sim

import (
	"testing"

	"github.com/bluenviron/mediacommon/v2/pkg/codecs/av1"
)

// the generated AV1 sequence headers parse and declare what the generator meant (cross-check with mediacommon)
func TestAV1SeqHdrSelf(t *testing.T) {
	for k := 0; k < 64; k++ {
		p := videoParamVariant("av1", k)
		if p.av1 == nil {
			continue
		}
		var sh av1.SequenceHeader
		if err := sh.Unmarshal(p.seqHdr); err != nil {
			t.Fatalf("k=%d: %v", k, err)
		}
		if sh.Width() != p.av1.w || sh.Height() != p.av1.h || sh.ColorConfig.BitDepth != p.av1.depth ||
			int(sh.SeqLevelIdx[0]) != p.av1.level || sh.ColorConfig.ColorDescriptionPresentFlag != p.av1.desc ||
			int(sh.ColorConfig.ChromaSamplePosition) != p.av1.csp {
			t.Fatalf("k=%d: parsed %dx%d depth %d level %d desc %v csp %d, meant %+v", k, sh.Width(), sh.Height(), sh.ColorConfig.BitDepth,
				sh.SeqLevelIdx[0], sh.ColorConfig.ColorDescriptionPresentFlag, sh.ColorConfig.ChromaSamplePosition, *p.av1)
		}
		if p.av1.desc && (int(sh.ColorConfig.TransferCharacteristics) != p.av1.tc || int(sh.ColorConfig.MatrixCoefficients) != p.av1.mc || sh.ColorConfig.ColorRange != p.av1.fullRange) {
			t.Fatalf("k=%d: colour %d/%d/%d range %v, meant %+v", k, sh.ColorConfig.ColorPrimaries, sh.ColorConfig.TransferCharacteristics, sh.ColorConfig.MatrixCoefficients, sh.ColorConfig.ColorRange, *p.av1)
		}
	}
}
