package sim

import (
	"bytes"
	"fmt"
	"math"
	"strings"
	"sync/atomic"
	"time"
)

// C08: one writer + concurrent HTTP readers: no data race, no panic, atomic views.

// singlePlaylistInvariants are the per-playlist invariants of C03-C05 that need no history.
func singlePlaylistInvariants(pl *mediaPL, cfg *muxCfg) error {
	if !pl.HasMediaSeq {
		return fmt.Errorf("EXT-X-MEDIA-SEQUENCE missing")
	}
	if len(pl.Segments) > cfg.segCount {
		return fmt.Errorf("%d segments listed, SegmentCount is %d", len(pl.Segments), cfg.segCount)
	}
	var nums []int
	maxPart := time.Duration(0)
	for i, sg := range pl.Segments {
		msn := pl.MediaSequence + pl.Skipped + i
		if r := int(math.Round(sg.Duration.Seconds())); r > pl.TargetDuration {
			return fmt.Errorf("segment %d: EXTINF %v exceeds EXT-X-TARGETDURATION %d", msn, sg.Duration, pl.TargetDuration)
		}
		if !sg.Gap && uriNumber(sg.URI) != msn {
			return fmt.Errorf("segment %s listed as media sequence %d", sg.URI, msn)
		}
		if len(sg.Parts) > 0 && len(pl.Segments)-i > 2 {
			return fmt.Errorf("parts listed under segment %d, not one of the last two", msn)
		}
		var sum time.Duration
		for _, p := range sg.Parts {
			nums = append(nums, uriNumber(p.URI))
			sum += p.Duration
			if p.Duration > maxPart {
				maxPart = p.Duration
			}
		}
		if len(sg.Parts) > 0 && durDiff(sum, sg.Duration) > time.Duration(len(sg.Parts)+1)*textRes/2 {
			return fmt.Errorf("segment %d: parts add up to %v, EXTINF is %v", msn, sum, sg.Duration)
		}
	}
	for _, p := range pl.TrailingParts {
		nums = append(nums, uriNumber(p.URI))
		if p.Duration > maxPart {
			maxPart = p.Duration
		}
	}
	for i := 1; i < len(nums); i++ {
		if nums[i] != nums[i-1]+1 {
			return fmt.Errorf("part numbers %v do not increase by one", nums)
		}
	}
	if cfg.vname == "ll" {
		if !pl.HasPreload {
			return fmt.Errorf("no preload hint")
		}
		if len(nums) > 0 && uriNumber(pl.PreloadHint) != nums[len(nums)-1]+1 {
			return fmt.Errorf("preload hint %s does not follow part %d", pl.PreloadHint, nums[len(nums)-1])
		}
		if !pl.HasPartInf || maxPart > pl.PartTarget {
			return fmt.Errorf("PART-TARGET %v below a listed part %v", pl.PartTarget, maxPart)
		}
		if pl.PartHoldBack < 2*pl.PartTarget {
			return fmt.Errorf("PART-HOLD-BACK %v < 2 x PART-TARGET %v", pl.PartHoldBack, pl.PartTarget)
		}
		if !pl.HasCanSkip || pl.CanSkipUntil < 6*time.Duration(pl.TargetDuration)*time.Second {
			return fmt.Errorf("CAN-SKIP-UNTIL %v < 6 x TARGETDURATION %d", pl.CanSkipUntil, pl.TargetDuration)
		}
	}
	return nil
}

type c08Ref struct {
	step int
	body map[string][]byte // path -> playlist body at that rest point
}

type c08Req struct {
	kind     string
	path     string
	plPath   string // for playlist kinds: the reference path to compare with
	resp     *httpResp
	task     *Task
	invStep  int
	client   int
	done     bool
	wasKnown []byte // for media objects: the reference bytes
}

type c08World struct {
	r           *Run
	w           *muxWorld
	cfg         *muxCfg
	streams     []string
	content     bool
	idx         *httpResp
	refs        []*c08Ref
	objects     map[string][]byte // media object path -> bytes when first seen listed
	latest      map[string]*mediaPL
	lastMSN     map[string]int // client/stream -> last media sequence seen
	goneChecked map[string]bool
}

// takeRefs records reference snapshots of all playlists at this rest point (no-hook probes).
func (c *c08World) takeRefs() {
	w, r := c.w, c.r
	if !c.content {
		if c.idx == nil {
			c.idx = w.get("index.m3u8")
		}
		if !c.idx.isDone() {
			return
		}
		c.content = true
		mp, err := parseMultivariant(c.idx.body)
		if err != nil {
			r.Fail("grammar", "index", "multivariant playlist: %v", err)
			return
		}
		for _, v := range mp.Variants {
			c.streams = append(c.streams, stripQuery(v.URI))
		}
		for _, rd := range mp.Renditions {
			if rd.HasURI {
				c.streams = append(c.streams, stripQuery(rd.URI))
			}
		}
	}
	ref := &c08Ref{step: r.Stats.Steps, body: map[string][]byte{}}
	for _, p := range append([]string{"index.m3u8"}, c.streams...) {
		resp := w.get(p)
		if !resp.isDone() || resp.effStatus() != 200 {
			r.Fail("reference", "probe", "reference request %s failed (done=%v status=%d)", p, resp.isDone(), resp.effStatus())
			return
		}
		ref.body[p] = resp.body
		if p != "index.m3u8" {
			pl, err := parseMediaPlaylist(resp.body)
			if err != nil {
				r.Fail("grammar", "media-playlist", "%s: %v\n%s", p, err, resp.body)
				return
			}
			c.latest[p] = pl
			// a segment whose number is below the window of the playlist just served must not resolve any more (the
			// writer may be parked inside a rotation at this moment: dropping it from the list and from the URL table
			// belong to one critical section)
			sid := strings.TrimSuffix(p, "_stream.m3u8")
			for u := range c.objects {
				if c.goneChecked[u] || !strings.Contains(u, "_"+sid+"_seg") {
					continue
				}
				if n := uriNumber(u); n >= 0 && n < pl.MediaSequence {
					c.goneChecked[u] = true
					if o := w.get(u); o.isDone() && o.effStatus() == 200 && len(o.body) > 0 {
						r.Fail("gone", "expired-still-served", "%s is below the window of %s (media sequence %d) and still answers 200 with %d bytes", u, p, pl.MediaSequence, len(o.body))
						return
					}
					r.Probe("expired-uri-probed-mid-rotation")
				}
			}
			// remember the bytes of every media object when first listed
			var us []string
			if pl.HasMap {
				us = append(us, pl.MapURI)
			}
			for _, sg := range pl.Segments {
				if !sg.Gap {
					us = append(us, sg.URI)
				}
				for _, pp := range sg.Parts {
					us = append(us, pp.URI)
				}
			}
			for _, pp := range pl.TrailingParts {
				us = append(us, pp.URI)
			}
			for _, u := range us {
				if _, ok := c.objects[u]; !ok || strings.Contains(u, "init") {
					o := w.get(u)
					if o.isDone() && o.effStatus() == 200 {
						c.objects[u] = o.body
					}
				}
			}
		}
	}
	c.refs = append(c.refs, ref)
	if len(c.refs) > 64 {
		c.refs = c.refs[len(c.refs)-64:]
	}
}

func scC08Serial(r *Run) { runHeldReaders(r, false, false) }

// scC05Held: the C05 clause about requests that had already resolved their handler when the writer finalises,
// rotates or expires the object: complete correct bytes or a non-200, never a truncated or foreign 200 body.
func scC05Held(r *Run) { runHeldReaders(r, true, false) }

// scC18Held: retention with requests that are inside a handler (held at its guarded sites) while the window moves.
func scC18Held(r *Run) { runHeldReaders(r, true, true) }

func runHeldReaders(r *Run, c05Only bool, bounds bool) {
	T := r.T
	g := &muxGen{variants: allVariants, minCalls: 30, maxCalls: 200, paramChanges: true, fastRotation: T.Chance(1, 2), negativeStart: true}
	cfg := genMuxCfg(r, g)
	if T.Chance(1, 2) {
		cfg.disk = true
	}
	if c05Only {
		cfg.segCount = map[bool]int{true: 7, false: 3}[cfg.vname == "ll"] // a small window: objects expire while readers are held
	}
	script := genScript(r, cfg, g)
	w, err := newMuxWorld(r, cfg, script)
	if err != nil {
		r.Probe("start-error")
		return
	}
	w.probesBypassHooks = true
	armed := ""
	for _, s := range []string{"rotate.beforeBroadcast", "server.beforeHandler", "preload.beforeDelegate", "segment.beforeCopy",
		"part.beforeCopy", "partdisk.reader"} {
		if T.Chance(1, 2) {
			r.Arm(s)
			armed += " " + s
		}
	}
	r.Arm("rotate.afterBroadcast") // see sc_c06.go: keeps multi-rotation writes repeatable
	if c05Only {
		r.Arm("segment.beforeCopy", "part.beforeCopy", "server.beforeHandler")
	}
	nClients := T.Range(1, 6)
	r.Tracef("config %s calls=%d clients=%d armed=[%s]", cfg, len(script), nClients, armed)
	c := &c08World{r: r, w: w, cfg: cfg, objects: map[string][]byte{}, latest: map[string]*mediaPL{}, lastMSN: map[string]int{}, goneChecked: map[string]bool{}}
	var clients []*Task
	for i := 0; i < nClients; i++ {
		clients = append(clients, w.newClient(fmt.Sprintf("client%d", i)))
	}
	var active []*c08Req

	issue := func(ci int) {
		t := clients[ci]
		q := &c08Req{task: t, client: ci, invStep: r.Stats.Steps}
		if !c.content {
			q.kind, q.path, q.plPath = "index", "index.m3u8", "index.m3u8"
			if T.Chance(1, 2) {
				gs := guessStreamURIs(cfg)
				q.kind = "media"
				q.path = gs[T.Intn(len(gs))]
				q.plPath = q.path
			}
		} else {
			s := c.streams[T.Intn(len(c.streams))]
			pl := c.latest[s]
			pick := T.Intn(10)
			if c05Only && pick < 4 {
				pick = 5 + T.Intn(3) // segments and parts
			}
			switch pick {
			case 0:
				q.kind, q.path, q.plPath = "index", "index.m3u8", "index.m3u8"
			case 1, 2:
				q.kind, q.path, q.plPath = "media", s, s
			case 3:
				if cfg.vname == "ll" && pl != nil {
					q.kind = "blocking"
					q.path = fmt.Sprintf("%s?_HLS_msn=%d&_HLS_part=%d", s, pl.MediaSequence+len(pl.Segments), len(pl.TrailingParts))
					q.plPath = s
				} else {
					q.kind, q.path, q.plPath = "media", s, s
				}
			case 4:
				if pl != nil && pl.HasMap {
					q.kind, q.path = "init", pl.MapURI
				} else {
					q.kind, q.path = "unknown", "nothing.mp4"
				}
			case 5, 6:
				q.kind, q.path = "unknown", "nothing.mp4"
				if pl != nil {
					// any listed segment, biased to the oldest (about to expire) and the newest
					var segs []string
					for _, sg := range pl.Segments {
						if !sg.Gap {
							segs = append(segs, sg.URI)
						}
					}
					if len(segs) > 0 {
						q.kind = "segment"
						q.path = Pick(T, segs[0], segs[len(segs)-1], segs[T.Intn(len(segs))])
					}
				}
			case 7:
				q.kind, q.path = "unknown", "nothing.mp4"
				if pl != nil {
					var ps []string
					for _, sg := range pl.Segments {
						for _, p := range sg.Parts {
							ps = append(ps, p.URI)
						}
					}
					for _, p := range pl.TrailingParts {
						ps = append(ps, p.URI)
					}
					if len(ps) > 0 {
						q.kind = "part"
						q.path = Pick(T, ps[0], ps[len(ps)-1], ps[T.Intn(len(ps))])
					}
				}
			case 8:
				if pl != nil && pl.HasPreload {
					q.kind, q.path = "preload-hint", pl.PreloadHint
				} else {
					q.kind, q.path = "unknown", "nothing.mp4"
				}
			default:
				q.kind, q.path = "unknown", Pick(T, "nothing.mp4", "gap.mp4", "x_seg0.mp4")
			}
		}
		q.wasKnown = c.objects[q.path]
		q.resp = w.request(t, q.path)
		active = append(active, q)
		r.Cell("c08 %s %s", cfg.vname, q.kind)
		syncWait()
	}

	check := func(q *c08Req) {
		q.done = true
		resp := q.resp
		st := resp.effStatus()
		switch q.kind {
		case "index", "media", "blocking":
			if st != 200 {
				if w.closed && st == 500 {
					return
				}
				if q.kind == "blocking" && st == 400 {
					return // the window moved on while the request was parked before its handler
				}
				r.Fail("status", q.kind, "%s request %s returned %d", q.kind, q.path, st)
				return
			}
			if c05Only {
				return
			}
			// atomic view: equal to one of the reference snapshots taken between invoke and return
			match := false
			for _, ref := range c.refs {
				if ref.step >= q.invStep-1 && bytes.Equal(ref.body[q.plPath], resp.body) {
					match = true
					break
				}
			}
			// also the snapshot current just before the invoke
			if !match {
				for i := len(c.refs) - 1; i >= 0; i-- {
					if c.refs[i].step < q.invStep {
						match = bytes.Equal(c.refs[i].body[q.plPath], resp.body)
						break
					}
				}
			}
			if !match && len(c.refs) > 0 {
				r.Fail("atomic-view", q.kind, "response to %s (invoked at step %d, returned at step %d) equals none of the reference snapshots of that interval\n%s",
					q.path, q.invStep, r.Stats.Steps, resp.body)
				return
			}
			if q.kind != "index" {
				pl, err := parseMediaPlaylist(resp.body)
				if err != nil {
					r.Fail("grammar", "media-playlist", "%s: %v\n%s", q.path, err, resp.body)
					return
				}
				if err := singlePlaylistInvariants(pl, cfg); err != nil {
					r.Fail("single-playlist-invariant", q.kind, "%s: %v\n%s", q.path, err, resp.body)
					return
				}
				key := fmt.Sprintf("%d/%s", q.client, q.plPath)
				if last, ok := c.lastMSN[key]; ok && pl.MediaSequence < last {
					r.Fail("monotone", q.kind, "client %d saw media sequence %d after %d on %s", q.client, pl.MediaSequence, last, q.plPath)
					return
				}
				c.lastMSN[key] = pl.MediaSequence
			} else if _, err := parseMultivariant(resp.body); err != nil {
				r.Fail("grammar", "index", "%v\n%s", err, resp.body)
			}
		case "segment", "part", "init", "preload-hint":
			if st == 200 && len(resp.body) > 0 {
				want := q.wasKnown
				if want == nil {
					want = c.objects[q.path]
				}
				if q.kind == "init" {
					// the init may legitimately have been regenerated: any body ever served as reference is fine
					return
				}
				if want != nil && !bytes.Equal(want, resp.body) {
					r.Fail("torn-body", q.kind, "%s %s returned %d bytes with status 200 that differ from the %d bytes it had when it was listed",
						q.kind, q.path, len(resp.body), len(want))
					return
				}
				if want != nil {
					r.Probe("object-bytes-compared")
				}
			}
		case "unknown":
			if st == 200 && len(resp.body) > 0 {
				r.Fail("unknown-uri", "media-bytes", "unknown URI %s returned %d bytes", q.path, len(resp.body))
			}
		}
	}

	afterStep := func() {
		w.poll()
		if w.writer.Idle() || w.writer.Parked() != "" {
			c.takeRefs()
		}
		if r.Failed() {
			return
		}
		kept := active[:0]
		for _, q := range active {
			if !q.done && q.resp.isDone() {
				check(q)
				if r.Failed() {
					return
				}
			}
			if !q.done {
				kept = append(kept, q)
			}
		}
		active = kept
	}

	for r.Stats.Steps < 2500 && !r.Failed() {
		var acts []Action
		if w.writer.Idle() && w.next < len(script) {
			acts = append(acts, Action{"write", 8, func() {
				cl := w.writeNext()
				if cl.done && cl.err != nil {
					w.script = w.script[:w.next]
				}
			}})
		}
		for _, t := range r.ParkedTasks() {
			t := t
			acts = append(acts, Action{"resume " + t.Name + "@" + t.Parked(), 5, func() { t.Resume() }})
		}
		if w.next < len(script) {
			for i, t := range clients {
				if t.Idle() {
					i := i
					acts = append(acts, Action{fmt.Sprintf("client%d request", i), 2, func() { issue(i) }})
				}
			}
		}
		if len(acts) == 0 {
			break
		}
		r.Choose(acts)
		afterStep()
		if bounds && !r.Failed() && w.writer.Idle() && c.content {
			// C18: whatever requests are in flight, the stream never retains more than its window
			w.obs.observe()
			w.obs.boundsAtRest(r)
		}
	}
	r.Stats.NonTrivial = c.content
	w.finish()
}

// scC08Race: bursts of truly concurrent execution under the race detector.
func scC08Race(r *Run) {
	T := r.T
	g := &muxGen{variants: allVariants, minCalls: 40, maxCalls: 200, paramChanges: true, fastRotation: true, negativeStart: true,
		paramChangeDen: Pick(T, 6, 2, 1), forceVideo: T.Chance(1, 2)}
	// each codec keeps its parameters in fields of its own: a third of the runs stay with one of the rarer ones
	switch T.Intn(6) {
	case 0:
		g.videoKinds, g.forceVideo = []string{"vp9"}, true
	case 1:
		g.videoKinds, g.forceVideo = []string{"av1", "h265"}, true
	}
	cfg := genMuxCfg(r, g)
	if T.Chance(1, 2) {
		cfg.disk = true
	}
	script := genScript(r, cfg, g)
	w, err := newMuxWorld(r, cfg, script)
	if err != nil {
		r.Probe("start-error")
		return
	}
	nClients := T.Range(1, 6)
	r.Tracef("config %s calls=%d clients=%d", cfg, len(script), nClients)
	c := &c08World{r: r, w: w, cfg: cfg, objects: map[string][]byte{}, latest: map[string]*mediaPL{}, lastMSN: map[string]int{}, goneChecked: map[string]bool{}}
	var clients []*Task
	for i := 0; i < nClients; i++ {
		clients = append(clients, w.newClient(fmt.Sprintf("client%d", i)))
	}
	type result struct {
		path string
		resp *httpResp
	}
	bursts := 0
	for w.next < len(script) && !r.Failed() {
		// at rest: refresh what the readers know
		c.takeRefs()
		if r.Failed() {
			break
		}
		batch := T.Range(1, 8)
		if w.next+batch > len(script) {
			batch = len(script) - w.next
		}
		closeInBurst := w.next+batch >= len(script) && T.Chance(1, 2)
		// URL lists for the readers
		var urls [][]string
		for range clients {
			var us []string
			n := T.Range(1, 6)
			for j := 0; j < n; j++ {
				if !c.content {
					gs := guessStreamURIs(cfg)
					us = append(us, Pick(T, "index.m3u8", gs[T.Intn(len(gs))]))
					continue
				}
				s := c.streams[T.Intn(len(c.streams))]
				pl := c.latest[s]
				var cand []string
				cand = append(cand, "index.m3u8", "index.m3u8", "index.m3u8", s, s, "nothing.mp4")
				if pl != nil {
					if pl.HasMap {
						cand = append(cand, pl.MapURI)
					}
					for _, sg := range pl.Segments {
						if !sg.Gap {
							cand = append(cand, sg.URI)
						}
						for _, p := range sg.Parts {
							cand = append(cand, p.URI)
						}
					}
					for _, p := range pl.TrailingParts {
						cand = append(cand, p.URI)
					}
					if pl.HasPreload {
						cand = append(cand, pl.PreloadHint, pl.PreloadHint)
					}
					if cfg.vname == "ll" {
						cand = append(cand, fmt.Sprintf("%s?_HLS_msn=%d&_HLS_part=%d", s, pl.MediaSequence+len(pl.Segments), len(pl.TrailingParts)),
							s+"?_HLS_skip=YES")
					}
				}
				us = append(us, cand[T.Intn(len(cand))])
			}
			urls = append(urls, us)
		}
		r.Step()
		r.Tracef("burst writes=%d close=%v", batch, closeInBurst)
		bursts++
		results := make([][]result, len(clients))
		first := w.next
		w.next += batch
		// release everybody in the same step: true concurrency inside the burst
		w.writer.StartNoWait(func() {
			for i := first; i < first+batch; i++ {
				cl := w.script[i]
				cl.err = w.doWrite(cl)
				cl.done = true
				if cl.err != nil {
					break
				}
			}
			if closeInBurst {
				w.m.Close()
			}
		})
		if closeInBurst {
			w.closed = true
		}
		for i, t := range clients {
			i := i
			us := urls[i]
			if !t.Idle() {
				continue // still blocked inside the muxer from an earlier burst (blocking reload / preload hint)
			}
			t.StartNoWait(func() {
				for _, u := range us {
					resp := w.directGet(u)
					results[i] = append(results[i], result{u, resp})
				}
			})
		}
		syncWait()
		// a blocked reader (blocking reload / preload hint whose part did not arrive) is released by more writes or Close
		stop := false
		for _, cl := range w.script[first : first+batch] {
			if cl.err != nil {
				stop = true
			}
		}
		for i := range clients {
			for _, res := range results[i] {
				if res.resp.effStatus() == 200 && strings.HasSuffix(stripQuery(res.path), ".m3u8") && res.path != "index.m3u8" && len(res.resp.body) > 0 {
					pl, err := parseMediaPlaylist(res.resp.body)
					if err != nil {
						r.Fail("grammar", "media-playlist", "%s: %v\n%s", res.path, err, res.resp.body)
						break
					}
					if err := singlePlaylistInvariants(pl, cfg); err != nil {
						r.Fail("single-playlist-invariant", "burst", "%s: %v\n%s", res.path, err, res.resp.body)
						break
					}
					key := fmt.Sprintf("%d/%s", i, stripQuery(res.path))
					if last, ok := c.lastMSN[key]; ok && pl.MediaSequence < last {
						r.Fail("monotone", "burst", "client %d saw media sequence %d after %d on %s", i, pl.MediaSequence, last, res.path)
					}
					c.lastMSN[key] = pl.MediaSequence
				}
			}
		}
		if stop || closeInBurst {
			break
		}
	}
	r.Stats.NonTrivial = bursts > 0
	r.Cell("c08race %s disk=%v", cfg.vname, cfg.disk)
	w.finish()
}

func init() {
	register(&PropDef{ID: "C08", Quick: 3000, Thorough: 120000, Profiles: []ProfileDef{
		{Name: "serial", Share: 2, Sc: scC08Serial},
		{Name: "race", Share: 3, Sc: scC08Race, Race: true},
		{Name: "go-on", Share: 1, Sc: scC18GoOn},
	}})
}

// scC04CrossBurst: all streams of one muxer rotate inside one critical section, so whatever stream a requester
// reads next can never be behind what it has already seen on another stream. One step releases the writer (the
// whole script, back to back) and 2-4 readers that alternate between the streams' playlists as fast as they
// can; true concurrency reaches windows that carry no yield hook. Judged at rest only: per reader, the last
// media sequence number listed never decreases from one response to the next, whatever the stream.
func scC04CrossBurst(r *Run) {
	T := r.T
	g := &muxGen{variants: []string{"fmp4", "ll"}, minCalls: 300, maxCalls: 1500, fastRotation: true, paramChanges: T.Chance(1, 3), forceVideo: T.Chance(1, 2)}
	cfg := genMuxCfg(r, g)
	if len(cfg.tracks) < 2 {
		r.Probe("single-stream")
		return
	}
	script := genScript(r, cfg, g)
	w, err := newMuxWorld(r, cfg, script)
	if err != nil {
		r.Probe("start-error")
		return
	}
	uris := guessStreamURIs(cfg)
	nReaders := T.Range(2, 4)
	r.Tracef("config %s calls=%d readers=%d", cfg, len(script), nReaders)
	var done atomic.Bool
	type obsv struct {
		stream string
		last   int
	}
	results := make([][]obsv, nReaders)
	var readers []*Task
	for i := 0; i < nReaders; i++ {
		readers = append(readers, w.newClient(fmt.Sprintf("reader%d", i)))
	}
	r.Step()
	w.next = len(script)
	w.writer.StartNoWait(func() {
		for _, cl := range script {
			if cl.err = w.doWrite(cl); cl.err != nil {
				break
			}
			cl.done = true
		}
		done.Store(true)
	})
	for i, t := range readers {
		i := i
		t.StartNoWait(func() {
			k := i
			for !done.Load() {
				u := uris[k%len(uris)]
				k++
				resp := w.directGet(u) // blocks until the first content is available
				if resp.effStatus() != 200 || len(resp.body) == 0 {
					continue
				}
				pl, err := parseMediaPlaylist(resp.body)
				if err != nil {
					continue
				}
				results[i] = append(results[i], obsv{u, pl.MediaSequence + len(pl.Segments) - 1})
			}
		})
	}
	syncWait()
	for i, rs := range results {
		for k := 1; k < len(rs); k++ {
			if rs[k].last < rs[k-1].last {
				r.Fail("cross-stream-order", "went-back", "reader %d saw media sequence %d as the last one of %s and then, later, only %d as the last one of %s: the streams were not rotated at the same instant",
					i, rs[k-1].last, rs[k-1].stream, rs[k].last, rs[k].stream)
				break
			}
		}
		if len(rs) > 10 {
			r.Probe("reader-made-progress")
		}
	}
	r.Stats.NonTrivial = true
	w.finish()
}
