package sim

import (
	"strings"
	"time"
)

// C19: LL-HLS parts are regular. C18: retention is bounded.

func (a *muxAnalysis) oracleC19(sampleDur time.Duration) {
	if a.failed {
		return
	}
	o := a.o
	cfg := a.cfg
	// OnEncodeError("part duration changed ...") is counted, not judged: the statement speaks about the
	// playlists only (an earlier version of this oracle demanded more than the statement and was removed)
	o.w.encMu.Lock()
	for _, e := range o.w.encErrs {
		if strings.Contains(e, "part duration changed") {
			o.w.r.Probe("onEncodeError-part-duration-changed")
		}
	}
	o.w.encMu.Unlock()
	for _, s := range o.streams {
		var D time.Duration
		haveD := false
		var prev *plSnap
		prevHad := false
		for _, sn := range s.history {
			pl := sn.pl
			var nonFinal []mPart
			for _, seg := range pl.Segments {
				if len(seg.Parts) > 1 {
					nonFinal = append(nonFinal, seg.Parts[:len(seg.Parts)-1]...)
				}
			}
			nonFinal = append(nonFinal, pl.TrailingParts...)
			fail := func(oracle, key, format string, args ...any) {
				a.fail(oracle, key, "%s after call %d: "+format+"\n%s", append(append([]any{s.uri, sn.afterCall}, args...), sn.raw)...)
			}
			for _, p := range nonFinal {
				if !haveD {
					D, haveD = p.Duration, true
				}
				if durDiff(p.Duration, D) > textRes {
					fail("part-regular", "differs", "non-final part %s lasts %v, earlier non-final parts last %v (constant sample duration %v)", stripQuery(p.URI), p.Duration, D, sampleDur)
					return
				}
				T := pl.PartTarget
				if p.Duration > T+textRes {
					fail("part-regular", "above-target", "non-final part %s lasts %v, PART-TARGET is %v", stripQuery(p.URI), p.Duration, T)
					return
				}
				if float64(p.Duration+textRes) < 0.85*float64(T) {
					fail("part-regular", "below-85-percent", "non-final part %s lasts %v, less than 85%% of PART-TARGET %v", stripQuery(p.URI), p.Duration, T)
					return
				}
				if p.Duration+textRes < cfg.partMin {
					fail("part-regular", "below-min", "non-final part %s lasts %v, PartMinDuration is %v", stripQuery(p.URI), p.Duration, cfg.partMin)
					return
				}
				m := cfg.partMin
				if sampleDur > m {
					m = sampleDur
				}
				if p.Duration >= 2*m+sampleDur+textRes {
					fail("part-regular", "too-long", "non-final part %s lasts %v, not less than 2*max(PartMinDuration %v, sample %v) + sample", stripQuery(p.URI), p.Duration, cfg.partMin, sampleDur)
					return
				}
				o.w.r.Probe("non-final-part-checked")
			}
			has := len(nonFinal) > 0
			if prev != nil && prevHad && has && prev.pl.PartTarget != pl.PartTarget {
				fail("part-target", "changed", "PART-TARGET changed from %v to %v between two playlists that both list a non-final part", prev.pl.PartTarget, pl.PartTarget)
				return
			}
			prev, prevHad = sn, has
		}
	}
}

// boundsAtRest is evaluated after every write of a C18 run.
func (o *muxObs) boundsAtRest(r *Run) {
	cfg := o.w.cfg
	for _, s := range o.streams {
		if len(s.history) == 0 {
			continue
		}
		pl := s.history[len(s.history)-1].pl
		if len(pl.Segments) > cfg.segCount {
			r.Fail("retention", "listed", "%s lists %d segments, SegmentCount is %d", s.uri, len(pl.Segments), cfg.segCount)
			return
		}
	}
	if cfg.disk {
		nStreams := len(o.streams)
		if nStreams == 0 {
			nStreams = len(cfg.tracks)
			if cfg.vname == "mpegts" {
				nStreams = 1
			}
		}
		es := o.w.dirEntries()
		if limit := nStreams * (cfg.segCount + 1); len(es) > limit {
			r.Fail("retention", "files", "Directory holds %d files, bound is streams(%d) x (SegmentCount(%d)+1) = %d", len(es), nStreams, cfg.segCount, limit)
			return
		}
		if len(es) > 0 {
			r.Probe("directory-checked")
		}
	}
}

// oracleC18 checks the size bound of every published segment.
func (a *muxAnalysis) oracleC18(errCall *writeCall) {
	if a.failed {
		return
	}
	cfg := a.cfg
	sizeOf := map[*mediaObj]uint64{}
	for _, list := range a.segDec {
		for _, d := range list {
			if cfg.isFMP4() {
				sizeOf[d.obj] += uint64(len(d.u.payload))
			} else {
				for _, n := range d.u.data {
					sizeOf[d.obj] += uint64(len(n))
				}
			}
		}
	}
	for obj, sz := range sizeOf {
		if sz > cfg.segMaxSize {
			a.fail("segment-size", "exceeded", "segment %s holds %d bytes of media payload, SegmentMaxSize is %d", obj.uri, sz, cfg.segMaxSize)
			return
		}
		if sz*10 >= cfg.segMaxSize*9 {
			a.o.w.r.Probe("segment-near-size-limit")
		}
	}
	if errCall != nil {
		// nothing of the rejected write may be published
		for _, u := range errCall.units {
			for _, list := range [][]decUnit{a.segDec[u.track], a.partDec[u.track]} {
				for _, d := range list {
					if d.u == u {
						a.fail("segment-size", "rejected-write-published", "unit %d of track %d was rejected with an error but is published in %s", u.idx, u.track, d.obj.uri)
						return
					}
				}
			}
		}
	}
}
