package sim

import (
	"bytes"
	"context"
	"errors"
	"fmt"
	"io"
	"net/http"
	"os"
	"sort"
	"strings"
	"sync"
	"time"
)

// W-CLI: the real gohlslib Client over a simulated network. The transport is an
// http.RoundTripper owned by the simulator: every request becomes a pending event that the
// scheduler answers (from an origin) after a drawn simulated latency, or fails.

type netFate struct {
	latency  time.Duration // request -> arrival at the origin
	back     time.Duration // response -> client
	fault    string        // "", status, transport, stall, truncate, mutate
	status   int
	ctxError bool // transport fault: the error wraps context.DeadlineExceeded
	mutation func(path string, body []byte) []byte
}

type netReq struct {
	id       int
	req      *http.Request
	url      string
	rng      string
	at       time.Duration // when the client issued it
	arriveAt time.Duration
	fate     *netFate
	reply    chan *netReply
	// origin side
	arrived     bool
	answered    bool
	delivered   bool
	resp        *originResp
	cancelled   bool
	deliveredAt time.Duration
}

type netReply struct {
	resp *http.Response
	err  error
}

type originResp struct {
	status int
	body   []byte
	ctype  string
	done   bool // for asynchronous origins
}

// simTransport implements http.RoundTripper.
type simTransport struct {
	mu      sync.Mutex
	fresh   []*netReq
	nextID  int
	kick    chan struct{}
	r       *Run
	closed  bool
	started int
	// ignoreCancel: responses in flight are still delivered after the request context was cancelled
	ignoreCancel bool
}

func newSimTransport(r *Run) *simTransport {
	return &simTransport{kick: make(chan struct{}, 1), r: r}
}

func (t *simTransport) poke() {
	select {
	case t.kick <- struct{}{}:
	default:
	}
}

func (t *simTransport) RoundTrip(req *http.Request) (*http.Response, error) {
	nr := &netReq{req: req, url: req.URL.String(), rng: req.Header.Get("Range"), at: t.r.Now(), reply: make(chan *netReply, 1)}
	t.mu.Lock()
	t.fresh = append(t.fresh, nr)
	t.started++
	t.mu.Unlock()
	t.poke()
	if t.ignoreCancel {
		// a transport that does not abort a request in flight when its context is cancelled: the response
		// still arrives (the scheduler keeps delivering), as with a server that had already answered
		rep := <-nr.reply
		return rep.resp, rep.err
	}
	select {
	case rep := <-nr.reply:
		return rep.resp, rep.err
	case <-req.Context().Done():
		t.mu.Lock()
		nr.cancelled = true
		t.mu.Unlock()
		return nil, req.Context().Err()
	}
}

// takeFresh returns the requests issued since the last call, in canonical order.
func (t *simTransport) takeFresh() []*netReq {
	t.mu.Lock()
	f := t.fresh
	t.fresh = nil
	t.mu.Unlock()
	sort.SliceStable(f, func(i, j int) bool {
		if f[i].url != f[j].url {
			return f[i].url < f[j].url
		}
		return f[i].rng < f[j].rng
	})
	for _, r := range f {
		r.id = t.nextID
		t.nextID++
	}
	return f
}

// stallBody blocks until the request context is cancelled.
type stallBody struct {
	ctx    context.Context
	prefix *bytes.Reader
}

func (b *stallBody) Read(p []byte) (int, error) {
	if b.prefix != nil && b.prefix.Len() > 0 {
		return b.prefix.Read(p)
	}
	<-b.ctx.Done()
	return 0, b.ctx.Err()
}
func (b *stallBody) Close() error { return nil }

type truncBody struct {
	r *bytes.Reader
}

func (b *truncBody) Read(p []byte) (int, error) {
	n, err := b.r.Read(p)
	if err == io.EOF {
		return n, io.ErrUnexpectedEOF
	}
	return n, err
}
func (b *truncBody) Close() error { return nil }

var errSimTransport = errors.New("simulated transport error: connection reset")

var errSimTimeout = fmt.Errorf("simulated transport error: %w (Client.Timeout exceeded while awaiting headers)", context.DeadlineExceeded)

// origin is what answers requests.
type origin interface {
	// serve computes the response for a request that has arrived. Asynchronous origins may return
	// a response that is completed later (done=false) and must poke the transport when it is.
	serve(nr *netReq) *originResp
}

// netEvent is a scheduled delivery.
type netEvent struct {
	at   time.Duration
	seq  int
	kind string // arrive | deliver | custom
	nr   *netReq
	fn   func()
}

type cliNet struct {
	r       *Run
	tr      *simTransport
	org     origin
	events  []*netEvent
	seq     int
	log     []*netReq // every request in canonical arrival-at-transport order
	fateOf  func(nr *netReq) *netFate
	waiting []*netReq // arrived at an asynchronous origin, response not complete yet
}

func (n *cliNet) schedule(at time.Duration, kind string, nr *netReq, fn func()) {
	n.seq++
	n.events = append(n.events, &netEvent{at: at, seq: n.seq, kind: kind, nr: nr, fn: fn})
}

func (n *cliNet) nextEvent() *netEvent {
	var best *netEvent
	for _, e := range n.events {
		if best == nil || e.at < best.at || (e.at == best.at && e.seq < best.seq) {
			best = e
		}
	}
	return best
}

func (n *cliNet) remove(e *netEvent) {
	for i, x := range n.events {
		if x == e {
			n.events = append(n.events[:i], n.events[i+1:]...)
			return
		}
	}
}

// absorb takes newly issued requests, draws their fate and schedules their arrival.
func (n *cliNet) absorb() {
	for _, nr := range n.tr.takeFresh() {
		nr.fate = n.fateOf(nr)
		n.log = append(n.log, nr)
		nr.arriveAt = n.r.Now() + nr.fate.latency
		if nr.fate.fault == "blackhole" {
			// the request is never answered: only cancellation of its context ends it
			n.r.Fault("blackhole")
		} else {
			n.schedule(nr.arriveAt, "arrive", nr, nil)
		}
		n.r.Log("net", "%v #%d GET %s range=%q fault=%q", n.r.Now(), nr.id, nr.url, nr.rng, nr.fate.fault)
	}
}

func (n *cliNet) deliver(nr *netReq) {
	if nr.delivered {
		return
	}
	nr.delivered = true
	nr.deliveredAt = n.r.Now()
	n.r.Log("net", "%v #%d delivered", nr.deliveredAt, nr.id)
	f := nr.fate
	resp := nr.resp
	if f.fault != "" {
		n.r.HoldsOff() // the fault is about to end the client
	}
	switch f.fault {
	case "transport":
		n.r.Fault("transport-error")
		if f.ctxError {
			// what http.Client.Timeout or a proxying RoundTripper produces: an error that wraps a context error although
			// the client's own context is alive
			nr.reply <- &netReply{err: errSimTimeout}
			return
		}
		nr.reply <- &netReply{err: errSimTransport}
		return
	case "status":
		n.r.Fault("status-" + fmt.Sprint(f.status))
		nr.reply <- &netReply{resp: mkResponse(nr.req, f.status, "text/plain", io.NopCloser(bytes.NewReader([]byte("error"))))}
		return
	case "stall":
		n.r.Fault("stalled-body")
		pre := resp.body
		if len(pre) > 16 {
			pre = pre[:len(pre)/2]
		}
		nr.reply <- &netReply{resp: mkResponse(nr.req, 200, resp.ctype, &stallBody{ctx: nr.req.Context(), prefix: bytes.NewReader(pre)})}
		return
	case "truncate":
		n.r.Fault("truncated-body")
		b := resp.body
		if len(b) > 0 {
			b = b[:len(b)/2]
		}
		tr := mkResponse(nr.req, resp.status, resp.ctype, &truncBody{bytes.NewReader(b)})
		tr.ContentLength = int64(len(resp.body)) // the announced length; the connection drops half way
		nr.reply <- &netReply{resp: tr}
		return
	case "mutate":
		n.r.Fault("mutated-body")
		b := f.mutation(nr.url, resp.body)
		nr.reply <- &netReply{resp: mkResponse(nr.req, resp.status, resp.ctype, io.NopCloser(bytes.NewReader(b)))}
		return
	}
	if d := os.Getenv("VERIF_DUMP"); d != "" {
		os.WriteFile(fmt.Sprintf("%s/%03d_%s", d, nr.id, strings.ReplaceAll(strings.TrimPrefix(nr.url, "http://"), "/", "_")), resp.body, 0o644)
	}
	nr.reply <- &netReply{resp: mkResponse(nr.req, resp.status, resp.ctype, io.NopCloser(bytes.NewReader(resp.body)))}
}

func mkResponse(req *http.Request, status int, ctype string, body io.ReadCloser) *http.Response {
	h := http.Header{}
	if ctype != "" {
		h.Set("Content-Type", ctype)
	}
	return &http.Response{
		StatusCode: status, Status: fmt.Sprintf("%d %s", status, http.StatusText(status)),
		Proto: "HTTP/1.1", ProtoMajor: 1, ProtoMinor: 1, Header: h, Body: body, ContentLength: -1, Request: req,
	}
}

// pump performs every event that is due, absorbs new requests, and returns the time of the next event
// (or -1). It is called by the scheduler goroutine at rest.
func (n *cliNet) pump() time.Duration {
	for {
		n.absorb()
		// complete asynchronous origin responses
		kept := n.waiting[:0]
		for _, nr := range n.waiting {
			if nr.resp != nil && nr.resp.done {
				n.schedule(n.r.Now()+nr.fate.back, "deliver", nr, nil)
			} else {
				kept = append(kept, nr)
			}
		}
		n.waiting = kept
		e := n.nextEvent()
		if e == nil {
			return -1
		}
		if e.at > n.r.Now() {
			return e.at
		}
		n.remove(e)
		switch e.kind {
		case "arrive":
			nr := e.nr
			nr.arrived = true
			if nr.fate.fault == "transport" || nr.fate.fault == "status" {
				nr.resp = &originResp{status: 200, done: true}
				n.schedule(n.r.Now()+nr.fate.back, "deliver", nr, nil)
				break
			}
			nr.resp = n.org.serve(nr)
			if nr.resp.done {
				n.schedule(n.r.Now()+nr.fate.back, "deliver", nr, nil)
			} else {
				n.waiting = append(n.waiting, nr)
			}
		case "deliver":
			n.deliver(e.nr)
		case "custom":
			e.fn()
		}
		syncWait()
	}
}

// waitUntil blocks the scheduler until the given simulated time or until the transport is poked.
func (n *cliNet) waitUntil(at time.Duration) {
	d := at - n.r.Now()
	if d <= 0 {
		return
	}
	tm := time.NewTimer(d)
	select {
	case <-tm.C:
	case <-n.tr.kick:
		tm.Stop()
	}
	syncWait()
}
