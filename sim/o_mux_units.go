package sim

import (
	"fmt"
	"math/big"
	"os"
	"sort"
	"time"

	"github.com/bluenviron/mediacommon/v2/pkg/formats/fmp4"
)

// Unit-level analysis of a muxer run: decoded segments/parts are matched against
// the harness's own record of what was written (C01, C02, C03, C19).

type decUnit struct {
	u      *unit
	msn    int
	obj    *mediaObj
	frag   int
	dts    int64 // container decode time (fMP4: track timescale; MPEG-TS: 90 kHz, 33 bit)
	pts    int64
	dur    int64
	sync   bool
	hasDur bool
}

type segInfo struct {
	msn    int
	obj    *mediaObj
	first  int // index of the first leading unit
	count  int // leading units in the segment
	gap    bool
	stream *streamObs
}

type muxAnalysis struct {
	o             *muxObs
	cfg           *muxCfg
	lead          *trackSpec
	byPay         map[string]*unit
	segDec        map[int][]decUnit // track id -> decoded units from complete segments, playlist order
	partDec       map[int][]decUnit // track id -> decoded units from parts (LL), part order
	segs          []*segInfo        // complete segments of the leading stream, by msn
	openStart     int               // leading unit index that starts the open segment (-1: no complete segment observed)
	partsOf       map[int][]*mediaObj
	fail          func(oracle, key, format string, a ...any)
	failed        bool
	streamOfTrack map[int]*streamObs
}

func (c *muxCfg) isFMP4() bool { return c.vname != "mpegts" }

func fmp4Offset(clock int) int64 { return 10 * int64(clock) }

// analyse matches everything that was decoded against the written units.
func (o *muxObs) analyse(r *Run) *muxAnalysis {
	a := &muxAnalysis{o: o, cfg: o.w.cfg, lead: o.w.cfg.leadingTrack(), byPay: map[string]*unit{},
		segDec: map[int][]decUnit{}, partDec: map[int][]decUnit{}, partsOf: map[int][]*mediaObj{},
		streamOfTrack: map[int]*streamObs{}, openStart: -1}
	a.fail = func(oracle, key, format string, args ...any) {
		if !a.failed {
			a.failed = true
			r.Fail(oracle, key, format, args...)
		}
	}
	for _, ts := range a.cfg.tracks {
		for _, u := range ts.units {
			if u.call >= o.w.next && u.call >= len(o.w.script) {
				continue
			}
			a.byPay[string(u.payload)] = u
		}
	}
	for _, s := range o.streams {
		var segs, parts []*mediaObj
		for _, obj := range o.order {
			if obj.stream != s {
				continue
			}
			if obj.kind == "segment" {
				segs = append(segs, obj)
			} else if obj.kind == "part" {
				parts = append(parts, obj)
			}
		}
		sort.Slice(segs, func(i, j int) bool { return segs[i].msn < segs[j].msn })
		sort.Slice(parts, func(i, j int) bool { return parts[i].num < parts[j].num })
		for _, obj := range segs {
			if obj.decErr != nil {
				a.fail("decode", "segment", "segment %s does not decode: %v", obj.uri, obj.decErr)
				return a
			}
			a.addObject(obj, a.segDec, s)
			if a.failed {
				return a
			}
		}
		for _, obj := range parts {
			if obj.decErr != nil {
				a.fail("decode", "part", "part %s does not decode: %v", obj.uri, obj.decErr)
				return a
			}
			a.addObject(obj, a.partDec, s)
			if a.failed {
				return a
			}
			a.partsOf[obj.msn] = append(a.partsOf[obj.msn], obj)
		}
	}
	if os.Getenv("VERIF_DEBUG") != "" {
		for tid, l := range a.segDec {
			for _, d := range l {
				fmt.Fprintf(os.Stderr, "DBG track %d unit %d call %d dts %d msn %d obj %s frag %d cdts %d dur %d\n", tid, d.u.idx, d.u.call, d.u.dts, d.msn, d.obj.uri, d.frag, d.dts, d.dur)
			}
		}
		for _, s := range o.streams {
			for _, sn := range s.history {
				fmt.Fprintf(os.Stderr, "DBG playlist %s after %d:\n%s\n", s.uri, sn.afterCall, sn.raw)
			}
		}
	}
	// segment boundaries on the leading track
	ls := a.streamOfTrack[a.lead.id]
	if ls != nil {
		byMSN := map[int]*segInfo{}
		for _, d := range a.segDec[a.lead.id] {
			si := byMSN[d.msn]
			if si == nil {
				si = &segInfo{msn: d.msn, obj: d.obj, first: d.u.idx, stream: ls}
				byMSN[d.msn] = si
				a.segs = append(a.segs, si)
			}
			si.count++
		}
		if n := len(a.segs); n > 0 {
			a.openStart = a.segs[n-1].first + a.segs[n-1].count
		} else {
			a.openStart = -1
		}
	}
	return a
}

func (a *muxAnalysis) addObject(obj *mediaObj, into map[int][]decUnit, s *streamObs) {
	if !a.cfg.isFMP4() {
		for _, smp := range obj.ts {
			switch smp.codec {
			case "h264":
				u := a.byPay[string(avcc(smp.data))]
				if u == nil {
					a.fail("stranger", "mpegts-video", "segment %s contains an access unit that was never written (%d NALUs)", obj.uri, len(smp.data))
					return
				}
				// MPEG-TS time stamps are 33 bits wide: place the decode time at or below the written presentation time
				back := mod33(u.pts - smp.dts)
				if back > 1<<32 {
					back -= 1 << 33 // later than the presentation time: learnDTS reports it
				}
				if !a.learnDTS(u, u.pts-back, obj) {
					return
				}
				into[u.track] = append(into[u.track], decUnit{u: u, msn: obj.msn, obj: obj, dts: smp.dts, pts: smp.pts, sync: u.ra})
				a.streamOfTrack[u.track] = s
			case "aac":
				for i, au := range smp.data {
					u := a.byPay[string(au)]
					if u == nil {
						a.fail("stranger", "mpegts-audio", "segment %s contains an audio access unit that was never written", obj.uri)
						return
					}
					rate := int64(a.cfg.tracks[u.track].clock)
					off := int64(i) * 1024 * 90000 / rate
					into[u.track] = append(into[u.track], decUnit{u: u, msn: obj.msn, obj: obj, dts: smp.dts + off, pts: smp.pts + off, sync: true})
					a.streamOfTrack[u.track] = s
				}
			default:
				a.fail("stranger", "mpegts-track", "segment %s contains a track of unexpected type %s", obj.uri, smp.codec)
				return
			}
		}
		return
	}
	var haveEnd, haveEmpty bool
	var fragEnd, emptyBase int64
	for fi, part := range obj.parts {
		if len(part.Tracks) != 1 {
			// every fMP4 stream of the muxer carries one track; a fragment without samples has none
			if len(part.Tracks) == 0 {
				continue
			}
			a.fail("stranger", "fmp4-track-count", "%s %s fragment %d carries %d tracks", obj.kind, obj.uri, fi, len(part.Tracks))
			return
		}
		pt := part.Tracks[0]
		dts := int64(pt.BaseTime)
		// a fragment that declares the track without samples still has a base time: it lasts nothing, so it must
		// sit exactly where the previous fragment of this object ended and where the next one begins
		if haveEnd && len(pt.Samples) == 0 && dts != fragEnd {
			a.fail("timestamp", "base-time-empty-fragment", "%s %s: fragment %d declares its track without samples at base time %d, the previous fragment ended at %d", obj.kind, obj.uri, fi, dts, fragEnd)
			return
		}
		if haveEmpty && dts != emptyBase {
			a.fail("timestamp", "base-time-empty-fragment", "%s %s: fragment %d has base time %d, the fragment without samples before it %d", obj.kind, obj.uri, fi, dts, emptyBase)
			return
		}
		haveEmpty, emptyBase = len(pt.Samples) == 0, dts
		for _, smp := range pt.Samples {
			u := a.byPay[string(smp.Payload)]
			if u == nil {
				a.fail("stranger", "fmp4-sample", "%s %s contains a sample (%d bytes) that matches no written unit", obj.kind, obj.uri, len(smp.Payload))
				return
			}
			if prev, ok := a.streamOfTrack[u.track]; ok && prev != s {
				a.fail("stranger", "fmp4-foreign-track", "%s %s of stream %s contains a unit of track %d, which belongs to stream %s", obj.kind, obj.uri, s.uri, u.track, prev.uri)
				return
			}
			a.streamOfTrack[u.track] = s
			if !a.learnDTS(u, dts-fmp4Offset(a.cfg.tracks[u.track].clock), obj) {
				return
			}
			into[u.track] = append(into[u.track], decUnit{u: u, msn: obj.msn, obj: obj, frag: fi, dts: dts, pts: dts + int64(smp.PTSOffset),
				dur: int64(smp.Duration), sync: !smp.IsNonSyncSample, hasDur: true})
			dts += int64(smp.Duration)
		}
		haveEnd, fragEnd = true, dts
	}
}

// learnDTS: the decode time of a unit of a B-frame stream is not written, the library derives it from the bitstream.
// The first container the unit is decoded from supplies it; every later one (the part and the segment that hold
// the same unit, a re-fetched object) must agree, decode times never decrease along the track and never exceed
// the written presentation time.
func (a *muxAnalysis) learnDTS(u *unit, observed int64, obj *mediaObj) bool {
	ts := a.cfg.tracks[u.track]
	if !ts.reorder {
		return true
	}
	if u.dtsKnown {
		if u.dts != observed {
			a.fail("timestamp", "dts-differs-between-objects", "track %d unit %d: decode time %d in %s, %d where it was decoded before", u.track, u.idx, observed, obj.uri, u.dts)
			return false
		}
		return true
	}
	if observed > u.pts {
		a.fail("timestamp", "dts-after-pts", "track %d unit %d: decode time %d in %s is later than the written presentation time %d", u.track, u.idx, observed, obj.uri, u.pts)
		return false
	}
	u.dts, u.dtsKnown = observed, true
	if u.idx > 0 {
		if p := ts.units[u.idx-1]; p.dtsKnown && p.dts > u.dts {
			a.fail("timestamp", "dts-decreases", "track %d: unit %d has decode time %d, unit %d before it %d", u.track, u.idx, u.dts, p.idx, p.dts)
			return false
		}
	}
	if u.idx+1 < len(ts.units) {
		if n := ts.units[u.idx+1]; n.dtsKnown && n.dts < u.dts {
			a.fail("timestamp", "dts-decreases", "track %d: unit %d has decode time %d, unit %d after it %d", u.track, u.idx, u.dts, n.idx, n.dts)
			return false
		}
	}
	a.o.w.r.Probe("b-frame-decode-time-learnt")
	return true
}

// expected start index of a track's decoded run, per the statement of C01.
func (a *muxAnalysis) expectedStarts() (starts map[int]int, t0 int) {
	starts = map[int]int{}
	lt := a.lead
	accepted := func(ts *trackSpec, u *unit) bool {
		if !a.cfg.isFMP4() {
			return true
		}
		return u.dts+fmp4Offset(ts.clock) >= 0
	}
	s := -1
	for _, u := range lt.units {
		if (!lt.video || u.ra) && accepted(lt, u) {
			s = u.idx
			break
		}
	}
	starts[lt.id] = s
	t0 = -1
	if s < 0 {
		return
	}
	if a.cfg.isFMP4() {
		// the first leading unit is emitted (and the first segment created) when the next accepted leading unit is written
		for _, u := range lt.units[s+1:] {
			if accepted(lt, u) {
				t0 = u.call
				break
			}
		}
	} else {
		t0 = lt.units[s].call
	}
	for _, ts := range a.cfg.tracks {
		if ts == lt {
			continue
		}
		starts[ts.id] = -1
		if t0 < 0 {
			continue
		}
		if a.cfg.isFMP4() {
			for k := 0; k+1 < len(ts.units); k++ {
				if !accepted(ts, ts.units[k]) {
					continue
				}
				// emitted when the following accepted unit is written
				nx := -1
				for j := k + 1; j < len(ts.units); j++ {
					if accepted(ts, ts.units[j]) {
						nx = j
						break
					}
				}
				if nx >= 0 && ts.units[nx].call > t0 {
					starts[ts.id] = k
					break
				}
			}
		} else {
			for _, u := range ts.units {
				if u.call > t0 {
					starts[ts.id] = u.idx
					break
				}
			}
		}
	}
	return
}

// observedUpTo reports whether every non-gap segment of the stream before media sequence number msn was
// observed (fetched) by the harness; segments that enter and leave the window inside one Write call are not.
func (a *muxAnalysis) observedUpTo(s *streamObs, msn int) bool {
	seen := map[int]bool{}
	for _, obj := range a.o.order {
		if obj.stream == s && obj.kind == "segment" {
			seen[obj.msn] = true
		}
	}
	first := -1
	pl := s.history[0].pl
	for i, sg := range pl.Segments {
		if !sg.Gap {
			first = pl.MediaSequence + i
			break
		}
	}
	if first < 0 {
		return false
	}
	for m := first; m < msn; m++ {
		if !seen[m] {
			return false
		}
	}
	return true
}

// observedAfter reports whether every segment of the stream after media sequence number msn, up to the last one
// of the final playlist, was fetched by the harness.
func (a *muxAnalysis) observedAfter(s *streamObs, msn int) bool {
	if len(s.history) == 0 {
		return false
	}
	seen := map[int]bool{}
	for _, obj := range a.o.order {
		if obj.stream == s && obj.kind == "segment" {
			seen[obj.msn] = true
		}
	}
	pl := s.history[len(s.history)-1].pl
	for m := msn + 1; m < pl.MediaSequence+len(pl.Segments); m++ {
		if !seen[m] {
			return false
		}
	}
	return true
}

func mod33(v int64) int64 { return ((v % (1 << 33)) + (1 << 33)) % (1 << 33) }

// oracleC01: gap-free, byte-identical, ordered runs with the written timestamps.
func (a *muxAnalysis) oracleC01() {
	if a.failed {
		return
	}
	cfg := a.cfg
	starts, t0 := a.expectedStarts()
	written := a.o.w.next
	lastCutCall := -1
	if a.openStart >= 0 {
		sk := a.openStart
		if sk >= len(a.lead.units) || a.lead.units[sk].call >= written {
			a.fail("end", "leading", "the last complete segment ends with leading unit %d but unit %d was never written", sk-1, sk)
			return
		}
		lastCutCall = a.lead.units[sk].call
	}
	for _, ts := range cfg.tracks {
		for pass, list := range [][]decUnit{a.segDec[ts.id], a.partDec[ts.id]} {
			what := "segments"
			if pass == 1 {
				what = "parts"
				if cfg.vname != "ll" {
					continue
				}
			}
			if len(list) == 0 {
				continue
			}
			if s := a.streamOfTrack[ts.id]; pass == 0 && s != nil && len(s.history) > 0 && (s.history[0].pl.MediaSequence > 0 || !a.observedUpTo(s, list[0].msn)) {
				// several rotations inside the first observed Write call: the stream's first segment(s) entered and
				// left the window before any playlist could be fetched
				a.o.w.r.Probe("start-unobservable")
			} else if pass == 1 && list[0].obj.num != 0 {
				// the first part was never listed under our eyes (parts are only listed under the last two segments)
			} else if list[0].u.idx != starts[ts.id] {
				a.fail("start", fmt.Sprintf("%s-%v", ts.kind, ts.leading),
					"track %d (%s, leading=%v): decoded %s begin with written unit %d (call %d, ra=%v), expected start is unit %d (first segment created at call %d)",
					ts.id, ts.kind, ts.leading, what, list[0].u.idx, list[0].u.call, list[0].u.ra, starts[ts.id], t0)
				return
			}
			for i, d := range list {
				if pass == 1 && i > 0 && d.obj.num > list[i-1].obj.num+1 {
					// parts in between were rotated out of the playlist within one write call and never observed
					a.o.w.r.Probe("unobserved-parts-gap")
				} else if pass == 0 && i > 0 && d.msn > list[i-1].msn+1 {
					// segments in between entered and left the window within one write call and were never observable
					a.o.w.r.Probe("unobserved-segments-gap")
				} else if i > 0 && d.u.idx != list[i-1].u.idx+1 {
					kind := "lost"
					if d.u.idx <= list[i-1].u.idx {
						kind = "duplicated-or-reordered"
					}
					a.fail("contiguity", kind, "track %d (%s): in the decoded %s unit %d is followed by unit %d (%s %s)",
						ts.id, ts.kind, what, list[i-1].u.idx, d.u.idx, d.obj.kind, d.obj.uri)
					return
				}
				// timestamps
				if cfg.isFMP4() {
					off := fmp4Offset(ts.clock)
					if d.dts != d.u.dts+off {
						a.fail("timestamp", "dts", "track %d unit %d: decode time %d, written %d (+%d offset = %d) in %s", ts.id, d.u.idx, d.dts, d.u.dts, off, d.u.dts+off, d.obj.uri)
						return
					}
					if d.pts-d.dts != d.u.pts-d.u.dts {
						a.fail("timestamp", "pts-offset", "track %d unit %d: presentation offset %d, written %d", ts.id, d.u.idx, d.pts-d.dts, d.u.pts-d.u.dts)
						return
					}
					if d.u.idx+1 < len(ts.units) && (!ts.reorder || ts.units[d.u.idx+1].dtsKnown) {
						if want := ts.units[d.u.idx+1].dts - d.u.dts; d.dur != want {
							a.fail("timestamp", "duration", "track %d unit %d: duration %d, written units are %d apart", ts.id, d.u.idx, d.dur, want)
							return
						}
					}
					wantSync := !ts.video || d.u.ra
					if d.sync != wantSync {
						a.fail("timestamp", "sync-flag", "track %d unit %d: sync flag %v, written random-access=%v", ts.id, d.u.idx, d.sync, d.u.ra)
						return
					}
					// contiguous base times between fragments
					if i > 0 && (d.frag != list[i-1].frag || d.obj != list[i-1].obj) && !(pass == 1 && d.obj.num > list[i-1].obj.num+1) && !(pass == 0 && d.msn > list[i-1].msn+1) {
						if want := list[i-1].dts + list[i-1].dur; d.dts != want {
							a.fail("timestamp", "base-time", "track %d: fragment starting with unit %d has base time %d, previous fragment ended at %d", ts.id, d.u.idx, d.dts, want)
							return
						}
					}
				} else {
					// MPEG-TS at 90 kHz, compared modulo 2^33; +-1 tick where the track clock is not 90 kHz
					tol := int64(0)
					if ts.clock != 90000 {
						tol = 1
					}
					for _, p := range [][2]int64{{d.dts, d.u.dts}, {d.pts, d.u.pts}} {
						want := new(big.Int).Mul(big.NewInt(p[1]), big.NewInt(90000))
						want.Quo(want, big.NewInt(int64(ts.clock)))
						diff := mod33(p[0] - want.Int64())
						if diff > tol && diff < (1<<33)-tol {
							a.fail("timestamp", "mpegts", "track %d unit %d: container time %d, written %d at %d Hz", ts.id, d.u.idx, p[0], p[1], ts.clock)
							return
						}
					}
				}
			}
			// end of the run (segments only): nothing emitted before the last rotation may be missing
			if pass == 0 && lastCutCall >= 0 {
				lastIdx := list[len(list)-1].u.idx
				want := -1
				if ts == a.lead {
					want = a.openStart - 1
				} else if cfg.isFMP4() {
					for k := 0; k+1 < len(ts.units); k++ {
						if ts.units[k+1].call < lastCutCall && ts.units[k].dts+fmp4Offset(ts.clock) >= 0 {
							want = k
						}
					}
				} else {
					for _, u := range ts.units {
						if u.call < lastCutCall {
							want = u.idx
						}
					}
				}
				if s := a.streamOfTrack[ts.id]; s != nil && want >= starts[ts.id] && lastIdx != want && !a.observedAfter(s, list[len(list)-1].msn) {
					// a segment that was completed and slid out of the window inside one Write call (several
					// rotations in it) may hold the units in question
					a.o.w.r.Probe("end-unobservable")
				} else if want >= starts[ts.id] && lastIdx != want {
					a.fail("end", fmt.Sprintf("%s-%v", ts.kind, ts.leading), "track %d (%s): complete segments end with unit %d, expected %d (last rotation at call %d)",
						ts.id, ts.kind, lastIdx, want, lastCutCall)
					return
				}
			}
		}
		// a track whose start is known and whose units were emitted before the last rotation must appear at all
		if len(a.segDec[ts.id]) == 0 && starts[ts.id] >= 0 && lastCutCall >= 0 {
			emitted := false
			st := starts[ts.id]
			if cfg.isFMP4() {
				emitted = st+1 < len(ts.units) && ts.units[st+1].call < lastCutCall
			} else {
				emitted = ts.units[st].call < lastCutCall
			}
			if emitted {
				a.fail("contiguity", "track-missing", "track %d (%s): no unit was decoded from any complete segment although unit %d was emitted before the last rotation", ts.id, ts.kind, st)
				return
			}
		}
	}
}

// changedFlags computes, from the write script alone, at which leading units a codec
// parameter change is due (true) and where the statement does not settle it (ambiguous).
func (a *muxAnalysis) changedFlags() (changed, ambiguous map[int]bool) {
	changed, ambiguous = map[int]bool{}, map[int]bool{}
	lt := a.lead
	if !lt.video {
		return
	}
	cur := lt.initial
	atLastDecision := lt.initial
	pending := false
	for _, u := range lt.units {
		if u.call >= a.o.w.next {
			break
		}
		if u.carries && !u.params.equal(cur) {
			pending = true
			cur = u.params
		}
		if u.ra && pending {
			changed[u.idx] = true
			if cur.equal(atLastDecision) {
				ambiguous[u.idx] = true
			}
			pending = false
		}
		if u.ra {
			atLastDecision = cur
		}
	}
	return
}

// ratCmp compares (dts_b - dts_a)/clock with d: -1, 0, +1. The library floors both timestamps to
// nanoseconds before subtracting, so an exact distance strictly between d-1ns and d may come out
// either way; only that open interval is reported as "either". At or above d the cut is always due.
func ratCmp(ticks int64, clock int, d time.Duration, negative bool) (cmp int, either bool) {
	// ticks/clock seconds vs d ns  <=>  ticks*1e9 vs d*clock
	l := new(big.Int).Mul(big.NewInt(ticks), big.NewInt(1e9))
	rr := new(big.Int).Mul(big.NewInt(int64(d)), big.NewInt(int64(clock)))
	diff := new(big.Int).Sub(l, rr)
	lim := big.NewInt(-int64(clock)) // -1 ns in units of ns*clock
	if negative {
		// MPEG-TS timestamps are not offset and may be negative: Go's integer division truncates towards zero,
		// so across (or below) zero the library's difference can also come out up to 1 ns *short*
		up := big.NewInt(int64(clock))
		return diff.Sign(), diff.Cmp(lim) > 0 && diff.Cmp(up) < 0
	}
	return diff.Sign(), diff.Sign() < 0 && diff.Cmp(lim) > 0
}

// oracleC02: random-access starts, cut rule, same instant for all streams, init segment.
func (a *muxAnalysis) oracleC02() {
	if a.failed {
		return
	}
	cfg := a.cfg
	lt := a.lead
	written := a.o.w.next
	// (a) every segment starts with a random-access unit of the leading track (and PAT/PMT)
	for _, si := range a.segs {
		u := lt.units[si.first]
		if lt.video && !u.ra {
			a.fail("segment-start", "not-random-access", "segment %s starts with leading unit %d, which is not a random-access unit", si.obj.uri, u.idx)
			return
		}
		if !cfg.isFMP4() && !si.obj.patFirst {
			a.fail("segment-start", "pat-pmt", "MPEG-TS segment %s does not start with PAT followed by PMT", si.obj.uri)
			return
		}
	}
	for _, d := range a.segDec[lt.id] {
		if cfg.isFMP4() && d.u.idx == a.segFirst(d.msn) && !d.sync {
			a.fail("segment-start", "not-sync", "segment %s starts with a non-sync sample", d.obj.uri)
			return
		}
	}
	if len(a.segs) == 0 {
		return
	}
	// (b) the cut rule, relationally from one observed start to the next
	changed, ambiguous := a.changedFlags()
	due := func(start, u int, callsInSeg int) (isDue bool, either bool) {
		un := lt.units[u]
		if lt.video && !un.ra {
			return false, false
		}
		if changed[u] {
			if ambiguous[u] {
				return true, true
			}
			return true, false
		}
		if lt.reorder && (!un.dtsKnown || !lt.units[start].dtsKnown) {
			return false, true // B-frame stream, unit never decoded from a container: cannot tell
		}
		cmp, near := ratCmp(un.dts-lt.units[start].dts, lt.clock, cfg.segMin, !cfg.isFMP4() && (un.dts < 0 || lt.units[start].dts < 0))
		if !lt.video && !cfg.isFMP4() && callsInSeg < 100 {
			return false, false
		}
		if near {
			return cmp >= 0, true
		}
		return cmp >= 0, false
	}
	callsBetween := func(start, u int) int {
		// leading write calls that went into the segment before the call carrying unit u
		seen := map[int]bool{}
		for k := start; k < u; k++ {
			seen[lt.units[k].call] = true
		}
		delete(seen, lt.units[u].call)
		return len(seen)
	}
	for j, si := range a.segs {
		s, next := si.first, si.first+si.count
		for u := s + 1; u <= next && u < len(lt.units); u++ {
			if lt.units[u].call >= written {
				break
			}
			// multi-unit audio calls: the library decides per access unit in fMP4 and per call in MPEG-TS
			if !cfg.isFMP4() && !lt.video && u > 0 && lt.units[u].call == lt.units[u-1].call {
				continue
			}
			d, either := due(s, u, callsBetween(s, u))
			if u < next && d && !either {
				a.fail("cut-rule", "skipped", "segment starting at leading unit %d should have been cut at unit %d (ra=%v, changed=%v, %d ticks after the start, SegmentMinDuration %v) but runs on to unit %d",
					s, u, lt.units[u].ra, changed[u], lt.units[u].dts-lt.units[s].dts, cfg.segMin, next)
				return
			}
			if u == next && !d && !either {
				a.fail("cut-rule", "early", "a new segment starts at leading unit %d (ra=%v, changed=%v) only %d ticks after unit %d; SegmentMinDuration is %v",
					u, lt.units[u].ra, changed[u], lt.units[u].dts-lt.units[s].dts, s, cfg.segMin)
				return
			}
			if changed[u] && u == next {
				a.o.w.r.Probe("cut-on-parameter-change")
			}
		}
		// segments that were never observable (they entered and left the window inside one write call):
		// walking the rule from the end of this segment must land exactly on the next observed one
		if j+1 < len(a.segs) && a.segs[j+1].msn > si.msn+1 {
			c, hops := next, 0
			target := a.segs[j+1].first
			for c < target && hops < 10000 {
				nc := -1
				for u := c + 1; u <= target && u < len(lt.units); u++ {
					if !cfg.isFMP4() && !lt.video && lt.units[u].call == lt.units[u-1].call {
						continue
					}
					if d, _ := due(c, u, callsBetween(c, u)); d {
						nc = u
						break
					}
				}
				if nc < 0 {
					break
				}
				c = nc
				hops++
			}
			if c != target || hops != a.segs[j+1].msn-si.msn-1 {
				// ambiguous units may legitimately shift the walk; only report when no ambiguity is involved
				amb := false
				for u := next; u <= target && u < len(lt.units); u++ {
					if ambiguous[u] {
						amb = true
					}
				}
				if !amb {
					a.fail("cut-rule", "unobserved-gap", "between media sequence %d (ends at unit %d) and %d (starts at unit %d) the cut rule yields %d segment(s) ending at unit %d",
						si.msn, next, a.segs[j+1].msn, target, hops, c)
					return
				}
			}
			a.o.w.r.Probe("cut-rule-walked-unobserved-gap")
		} else if j+1 < len(a.segs) && a.segs[j+1].first != next {
			a.fail("cut-rule", "boundary", "media sequence %d ends before leading unit %d but media sequence %d starts at unit %d", si.msn, next, a.segs[j+1].msn, a.segs[j+1].first)
			return
		}
	}
	// never skipped when due: after the start of the open segment nothing written so far was due
	sk := a.openStart
	for u := sk + 1; u < len(lt.units); u++ {
		if lt.units[u].call >= written {
			break
		}
		if !cfg.isFMP4() && !lt.video && lt.units[u].call == lt.units[u-1].call {
			continue
		}
		if d, either := due(sk, u, callsBetween(sk, u)); d && !either {
			a.fail("cut-rule", "skipped-open", "the open segment starts at leading unit %d; unit %d (ra=%v, changed=%v, %d ticks later) was due for a cut but no segment was completed",
				sk, u, lt.units[u].ra, changed[u], lt.units[u].dts-lt.units[sk].dts)
			return
		}
	}
	// (c) all streams are cut at the same instant (fMP4: one stream per track)
	if cfg.isFMP4() {
		_, t0 := a.expectedStarts()
		cutCall := map[int]int{} // msn -> call at which the segment was opened
		starts0, _ := a.expectedStarts()
		for _, si := range a.segs {
			if si.first == starts0[lt.id] {
				cutCall[si.msn] = t0
			} else {
				cutCall[si.msn] = lt.units[si.first].call
			}
		}
		endCall := map[int]int{}
		for _, si := range a.segs {
			endCall[si.msn] = lt.units[si.first+si.count].call
		}
		for _, ts := range cfg.tracks {
			if ts == lt {
				continue
			}
			for _, d := range a.segDec[ts.id] {
				if d.u.idx+1 >= len(ts.units) {
					continue
				}
				em := ts.units[d.u.idx+1].call // the unit was emitted by the write of its successor
				lo, ok1 := cutCall[d.msn]
				hi, ok2 := endCall[d.msn]
				if !ok1 || !ok2 {
					a.fail("same-instant", "unknown-segment", "track %d unit %d sits in media sequence %d, which the leading stream does not have", ts.id, d.u.idx, d.msn)
					return
				}
				if !(em > lo && em < hi) {
					a.fail("same-instant", "misplaced", "track %d unit %d was emitted at call %d but sits in segment %d, which was open from call %d to call %d",
						ts.id, d.u.idx, em, d.msn, lo, hi)
					return
				}
			}
		}
	}
	// (d) init segment
	if cfg.isFMP4() {
		a.checkInit(changed)
	}
}

func (a *muxAnalysis) segFirst(msn int) int {
	for _, si := range a.segs {
		if si.msn == msn {
			return si.first
		}
	}
	return -1
}

func natTimescale(ts *trackSpec) uint32 {
	switch ts.kind {
	case "aac":
		return uint32(ts.aacRate)
	case "opus":
		return 48000
	}
	return 90000
}

func initMatchesParams(kind string, c fmp4.Codec, p *videoParams) (bool, string) {
	switch kind {
	case "h264":
		cc, ok := c.(*fmp4.CodecH264)
		if !ok {
			return false, fmt.Sprintf("codec type %T", c)
		}
		return string(cc.SPS) == string(p.sps) && string(cc.PPS) == string(p.pps), "SPS/PPS"
	case "h265":
		cc, ok := c.(*fmp4.CodecH265)
		if !ok {
			return false, fmt.Sprintf("codec type %T", c)
		}
		return string(cc.SPS) == string(p.sps) && string(cc.PPS) == string(p.pps) && string(cc.VPS) == string(p.vps), "VPS/SPS/PPS"
	case "vp9":
		cc, ok := c.(*fmp4.CodecVP9)
		if !ok {
			return false, fmt.Sprintf("codec type %T", c)
		}
		return cc.Width == p.vp9W && cc.Height == p.vp9H && cc.Profile == p.vp9Profile && cc.ColorRange == p.vp9Range, "width/height/profile/range"
	case "av1":
		cc, ok := c.(*fmp4.CodecAV1)
		if !ok {
			return false, fmt.Sprintf("codec type %T", c)
		}
		return string(cc.SequenceHeader) == string(p.seqHdr), "sequence header"
	}
	return true, ""
}

func (a *muxAnalysis) checkInit(changed map[int]bool) {
	cfg := a.cfg
	lt := a.lead
	for _, obj := range a.o.order {
		if obj.kind != "init" {
			continue
		}
		// which track does this stream carry?
		var ts *trackSpec
		for id, s := range a.streamOfTrack {
			if s == obj.stream {
				ts = cfg.tracks[id]
			}
		}
		for bi, body := range obj.inits {
			in, err := decodeInit(body)
			if err != nil {
				a.fail("init", "decode", "init %s does not decode: %v", obj.uri, err)
				return
			}
			if ts == nil {
				continue
			}
			if len(in.Tracks) != 1 {
				a.fail("init", "track-count", "init %s declares %d tracks, the stream has one", obj.uri, len(in.Tracks))
				return
			}
			if in.Tracks[0].TimeScale != natTimescale(ts) {
				a.fail("init", "timescale", "init %s declares timescale %d for a %s track, expected %d", obj.uri, in.Tracks[0].TimeScale, ts.kind, natTimescale(ts))
				return
			}
			kindOK := false
			switch in.Tracks[0].Codec.(type) {
			case *fmp4.CodecH264:
				kindOK = ts.kind == "h264"
			case *fmp4.CodecH265:
				kindOK = ts.kind == "h265"
			case *fmp4.CodecVP9:
				kindOK = ts.kind == "vp9"
			case *fmp4.CodecAV1:
				kindOK = ts.kind == "av1"
			case *fmp4.CodecMPEG4Audio:
				kindOK = ts.kind == "aac"
			case *fmp4.CodecOpus:
				kindOK = ts.kind == "opus"
			}
			if !kindOK {
				a.fail("init", "codec-type", "init %s declares codec %T for a %s track", obj.uri, in.Tracks[0].Codec, ts.kind)
				return
			}
			if ts != lt || !lt.video {
				continue
			}
			// validity interval of this init body in call indices
			from := obj.initAt[bi]
			to := a.o.w.next
			if bi+1 < len(obj.initAt) {
				to = obj.initAt[bi+1] - 1
			}
			// at every observation point c in [from,to]: if the last complete segment's parameters P are
			// still the current ones (nothing different arrived since), the init must carry P
			for c := from; c <= to; c++ {
				// last complete segment at c: the last cut s_j whose successor cut was written at a call < c
				j := -1
				for k, si := range a.segs {
					if lt.units[si.first+si.count].call < c {
						j = k
					}
				}
				if j < 0 {
					continue
				}
				segStart := a.segs[j].first
				// parameters in effect at s_j and whether anything else arrived by call c
				cur := lt.initial
				var pAtStart *videoParams
				pendingAfter := false
				for _, u := range lt.units {
					if u.call >= c {
						break
					}
					if u.carries && !u.params.equal(cur) {
						cur = u.params
						if u.idx > segStart {
							pendingAfter = true
						}
					}
					if u.idx == segStart {
						pAtStart = cur
					}
				}
				if pAtStart == nil || pendingAfter {
					continue
				}
				// only segments that were themselves opened by a parameter change (or the first) pin the init
				ok, what := initMatchesParams(ts.kind, in.Tracks[0].Codec, pAtStart)
				if !ok {
					a.fail("init", "stale-params", "after call %d the last complete segment (leading unit %d) is encoded with %s but the init segment served does not carry its %s",
						c, segStart, pAtStart.desc, what)
					return
				}
				if changed[segStart] {
					a.o.w.r.Probe("init-checked-after-param-change")
				}
			}
		}
	}
}
