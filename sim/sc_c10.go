package sim

import (
	"bytes"
	"errors"
	"fmt"
	"math/big"
	"time"

	"github.com/bluenviron/gohlslib/v2"
	"github.com/bluenviron/gohlslib/v2/pkg/codecs"
)

// C10: the client delivers every sample of a well-formed stream with normalized time.

func codecKind(c codecs.Codec) string {
	switch c.(type) {
	case *codecs.H264:
		return "h264"
	case *codecs.H265:
		return "h265"
	case *codecs.VP9:
		return "vp9"
	case *codecs.AV1:
		return "av1"
	case *codecs.MPEG4Audio:
		return "aac"
	case *codecs.Opus:
		return "opus"
	case nil:
		return "nil"
	}
	return fmt.Sprintf("%T", c)
}

func floorDiv(a, b *big.Int) int64 {
	q, m := new(big.Int).DivMod(a, b, new(big.Int))
	_ = m
	return q.Int64()
}

func sameData(a, b [][]byte) bool {
	if len(a) != len(b) {
		return false
	}
	for i := range a {
		if !bytes.Equal(a[i], b[i]) {
			return false
		}
	}
	return true
}

// downloadedSegments lists, per stream, the segments whose bytes reached the client, in order.
func downloadedSegments(w *cliWorld, o *stubOrigin) map[*sStream][]*netReq {
	out := map[*sStream][]*netReq{}
	for _, nr := range w.net.log {
		if !nr.delivered || nr.fate.fault != "" {
			continue
		}
		for _, st := range o.streams {
			if k, _ := st.classify(nr); k == "segment" {
				out[st] = append(out[st], nr)
			}
		}
	}
	return out
}

func oracleC10(r *Run, w *cliWorld, o *stubOrigin, requireAll bool) {
	// expected tracks: the supported tracks of the model, leading stream first
	type mt struct {
		st *sStream
		ti int
		t  *sTrack
	}
	var model []mt
	for _, st := range o.streams {
		for ti, t := range st.tracks {
			if t.supported {
				model = append(model, mt{st, ti, t})
			}
		}
	}
	w.mu.Lock()
	tracks := w.tracks
	deliveries := w.deliveries
	w.mu.Unlock()
	if w.onTracksN == 0 {
		// a playlist history that stops the client on its own account (C11's rule) may do so before the first
		// segment of every stream has arrived
		legitStop := false
		if w.waitSeen && w.waitErr != nil {
			switch w.waitErr.Error() {
			case "there aren't enough segments to fill the buffer", "next segment not found or not ready yet", "playback is too late":
				legitStop = true
				r.Probe("stopped-by-playlist-before-tracks")
			}
		}
		if requireAll && !legitStop {
			r.Fail("tracks", "never-reported", "OnTracks was never called (Wait: %v %s)", w.waitSeen, describeErr(w.waitErr))
		}
		return
	}
	if w.onTracksN > 1 {
		r.Fail("tracks", "reported-twice", "OnTracks was called %d times", w.onTracksN)
		return
	}
	if len(tracks) != len(model) {
		var got []string
		for _, t := range tracks {
			got = append(got, codecKind(t.Codec))
		}
		r.Fail("tracks", "count", "the client reports %d tracks %v, the stream has %d supported tracks", len(tracks), got, len(model))
		return
	}
	for i, m := range model {
		if k := codecKind(tracks[i].Codec); k != m.t.kind {
			r.Fail("tracks", "codec", "track %d is reported as %s, the stream's track is %s", i, k, m.t.kind)
			return
		}
		wantRate := m.t.scale
		if m.st.container == "ts" {
			wantRate = 90000
		}
		if tracks[i].ClockRate != wantRate {
			r.Fail("tracks", "clock-rate", "track %d (%s) has clock rate %d, expected %d", i, m.t.kind, tracks[i].ClockRate, wantRate)
			return
		}
	}
	dl := downloadedSegments(w, o)
	lead := o.streams[0]
	// leading track: the video track if any, else the first
	li := 0
	li = -1
	for ti, t := range lead.tracks {
		if t.video && t.supported {
			li = ti
			break
		}
	}
	if li < 0 {
		for ti, t := range lead.tracks {
			if t.supported {
				li = ti
				break
			}
		}
	}
	if li < 0 {
		return
	}
	L := lead.tracks[li]
	if len(dl[lead]) == 0 {
		return
	}
	_, firstSeg := lead.classify(dl[lead][0])
	if firstSeg.count[li] == 0 {
		return
	}
	t0 := L.units[firstSeg.first[li]].dts
	end := r.Now()
	if w.waitSeen {
		end = w.waitAt
	}
	// when did the client deliver its first leading unit (the pacing origin)?
	leadFirstAt := time.Duration(-1)
	for i, m := range model {
		if m.st == lead && m.ti == li && len(deliveries[i]) > 0 {
			leadFirstAt = deliveries[i][0].at
		}
	}
	for i, m := range model {
		st, t := m.st, m.t
		// origin of this track's clock
		var origin int64
		if st.container == "ts" {
			origin = t0
		} else {
			origin = floorDiv(new(big.Int).Mul(big.NewInt(t0), big.NewInt(int64(t.scale))), big.NewInt(int64(L.scale)))
		}
		tol := int64(0)
		if t.scale != L.scale {
			tol = 1
		}
		// expected deliveries
		type exp struct {
			u        *sUnit
			dts, pts int64
			due      bool // its segment was downloaded long enough before the end that it must have been delivered
			seg      *sSeg
		}
		var want []exp
		for _, nr := range dl[st] {
			_, sg := st.classify(nr)
			for k := 0; k < sg.count[m.ti]; k++ {
				u := t.units[sg.first[m.ti]+k]
				e := exp{u: u, dts: u.dts - origin, pts: u.pts - origin, seg: sg}
				// samples are paced: a unit is due at the time of the first leading delivery plus its own decode
				// time, provided its segment had been downloaded by then (generous slack)
				rate := int64(t.scale)
				if st.container == "ts" {
					rate = 90000
				}
				playAt := leadFirstAt + time.Duration(e.dts*int64(time.Second)/rate)
				if playAt < nr.deliveredAt {
					playAt = nr.deliveredAt
				}
				e.due = leadFirstAt >= 0 && playAt+sg.dur+5*time.Second <= end
				if e.pts < -tol {
					continue // precedes the origin: dropped
				}
				want = append(want, e)
			}
		}
		got := deliveries[i]
		wi := 0
		for gi, d := range got {
			// units whose presentation time is within the tolerance of zero may or may not be dropped
			for wi < len(want) && want[wi].pts < 0+tol && want[wi].pts >= -tol && !sameData(d.data, want[wi].u.data) {
				wi++
			}
			if wi >= len(want) {
				r.Fail("delivery", "extra", "track %d (%s): delivery %d has no counterpart among the units of the downloaded segments", i, t.kind, gi)
				return
			}
			e := want[wi]
			wi++
			if !sameData(d.data, e.u.data) && st.container == "ts" && t != L && wi == 1 && gi == 0 && firstSeg.count[li] > 1 {
				// MPEG-TS: were exactly the units dropped that lie, in decode time, before the second leading unit
				// (a PES completes only when the next one of its PID begins, so they are demultiplexed before the
				// first leading access unit)?
				second := L.units[firstSeg.first[li]+1].dts
				k := 0
				for k < len(want) && want[k].u.dts < second && !sameData(d.data, want[k].u.data) {
					k++
				}
				if k > 0 && k < len(want) && sameData(d.data, want[k].u.data) {
					r.Fail("delivery", "ts-nonleading-units-before-first-leading-pes", "track %d (%s): the first %d units (decode time between the first and the second leading access unit) were not delivered although they do not precede the origin", i, t.kind, k)
					return
				}
			}
			if !sameData(d.data, e.u.data) {
				// find out what it is, for the message
				what := "unknown bytes"
				for j, x := range want {
					if sameData(d.data, x.u.data) {
						what = fmt.Sprintf("the unit expected at position %d", j)
					}
				}
				r.Fail("delivery", "order-or-bytes", "track %d (%s): delivery %d is not the expected unit (position %d of the downloaded segments) but %s", i, t.kind, gi, wi-1, what)
				return
			}
			if d.pts < 0 {
				r.Fail("timestamp", "negative", "track %d (%s): delivery %d has negative presentation time %d", i, t.kind, gi, d.pts)
				return
			}
			if abs64(d.pts-e.pts) > tol {
				r.Fail("timestamp", "pts", "track %d (%s): delivery %d has PTS %d, container PTS minus the leading origin is %d", i, t.kind, gi, d.pts, e.pts)
				return
			}
			if d.hasDTS && abs64(d.dts-e.dts) > tol {
				r.Fail("timestamp", "dts", "track %d (%s): delivery %d has DTS %d, container DTS minus the leading origin is %d", i, t.kind, gi, d.dts, e.dts)
				return
			}
			if d.hasNTP && lead.hasPDT {
				// all PROGRAM-DATE-TIME values of the model are consistent: pdt(seg) + offset from the segment's first leading unit
				ls := lead.segs[0]
				base := L.units[ls.first[li]].dts
				var off time.Duration
				if st.container == "ts" {
					off = time.Duration((e.u.dts - base) * int64(time.Second) / 90000)
				} else {
					sec := new(big.Rat).Sub(new(big.Rat).SetFrac64(e.u.dts, int64(t.scale)), new(big.Rat).SetFrac64(base, int64(L.scale)))
					f, _ := sec.Float64()
					off = time.Duration(f * float64(time.Second))
				}
				wantT := ls.pdt.Add(off)
				if diff := d.ntp.Sub(wantT); diff > 2*time.Millisecond || diff < -2*time.Millisecond {
					r.Fail("absolute-time", "mismatch", "track %d (%s): delivery %d has AbsoluteTime %v, expected %v (program date-time + offset)", i, t.kind, gi,
						d.ntp.UTC().Format(time.RFC3339Nano), wantT.UTC().Format(time.RFC3339Nano))
					return
				}
				r.Probe("absolute-time-checked")
			}
		}
		// nothing due may be missing
		for ; wi < len(want); wi++ {
			if want[wi].due || (requireAll && w.waitSeen && errors.Is(w.waitErr, gohlslib.ErrClientEOS)) {
				r.Fail("delivery", "missing", "track %d (%s): %d of %d expected units were delivered; the unit at position %d (segment %d, downloaded long before the end of the run) never arrived (Wait: %v %s)",
					i, t.kind, len(got), len(want), wi, want[wi].seg.idx, w.waitSeen, describeErr(w.waitErr))
				return
			}
		}
	}
}

func abs64(v int64) int64 {
	if v < 0 {
		return -v
	}
	return v
}

func scC10(r *Run) { runC10(r, false) }

// scC10Race: the same under the race detector, biased to what makes the client's goroutines share state: several
// playlists (renditions wait for the leading stream's time converter and read its date-time anchor) and
// PROGRAM-DATE-TIME in every segment.
func scC10Race(r *Run) { runC10(r, true) }

func runC10(r *Run, raceBias bool) {
	T := r.T
	g := &originGen{containers: []string{"ts", "fmp4", "fmp4"}, modes: []string{"vod", "live", "event"}, minSegs: 3, maxSegs: 10,
		renditions: true, byteRanges: true, bframes: true, multiFrag: true, bigBases: true, segDurMs: []int{400, 1000, 2000, 4000}, noPDTChance: 3}
	if raceBias {
		g.noPDTChance = 0
		g.forceRenditions = true
		g.segDurMs = []int{400, 1000}
	}
	o := genStubOrigin(r, g)
	for _, st := range o.streams {
		if st.mode != "vod" {
			st.endAfter = len(st.segs)
		}
	}
	// a track of a codec the client does not support may sit before or after the supported ones: it is not
	// exposed and changes nothing for the others
	if T.Chance(1, 5) {
		all := o.streams
		o.streams = all[:1]
		applyEvil(r, o, Pick(T, "unsupported-codec-first", "unsupported-codec-extra"))
		o.streams = all
		if o.multi {
			o.multiRaw = o.multivariant()
		}
		r.Probe("unsupported-track-beside-supported")
	}
	w := newCliWorld(r, o, o.primaryURL(), plainFate(T, Pick(T, 0, 20, 200, 500)))
	total := time.Duration(len(o.streams[0].segs)) * o.streams[0].segs[0].dur
	w.limit = 3*total + 90*time.Second
	w.afterWait = time.Second
	maxFrags := 0
	for _, st := range o.streams {
		for _, sg := range st.segs {
			if sg.frags > maxFrags {
				maxFrags = sg.frags
			}
		}
	}
	r.Tracef("origin container=%s mode=%s streams=%d tracks0=%d segs=%d dur=%v maxFrags=%d multi=%v pdt=%v", o.streams[0].container, o.streams[0].mode,
		len(o.streams), len(o.streams[0].tracks), len(o.streams[0].segs), o.streams[0].segs[0].dur, maxFrags, o.multi, o.streams[0].hasPDT)
	w.run()
	r.Tracef("end: wait=%v err=%s requests=%d", w.waitSeen, describeErr(w.waitErr), len(w.net.log))
	// a well-formed ending stream must end with EOS
	if !w.waitSeen {
		r.Fail("outcome", "no-eos", "a well-formed stream that ends was not played to its end within %v of simulated time (wedged); %d requests", w.limit, len(w.net.log))
	} else if !errors.Is(w.waitErr, gohlslib.ErrClientEOS) {
		// live timing may legitimately stop the client (C11); anything else is not expected from a well-formed stream
		msg := w.waitErr.Error()
		if msg != "next segment not found or not ready yet" && msg != "playback is too late" && msg != "there aren't enough segments to fill the buffer" {
			r.Fail("outcome", "error", "a well-formed stream ended with %s", describeErr(w.waitErr))
		}
	}
	if !r.Failed() {
		oracleC10(r, w, o, true)
	}
	r.Stats.NonTrivial = w.onTracksN > 0
	r.Cell("c10 %s %s streams=%d frags=%s", o.streams[0].container, o.streams[0].mode, min(len(o.streams), 3), map[bool]string{true: ">10", false: "<=10"}[maxFrags > 10])
	w.finish()
}

func init() {
	register(&PropDef{ID: "C10", Quick: 7200, Thorough: 360000, Profiles: []ProfileDef{
		{Name: "stub", Share: 10, Sc: scC10},
		// the same scenario under the race detector: the client's goroutines share the time converter, the track
		// table and the queues
		{Name: "race-stub", Share: 2, Sc: scC10Race, Race: true},
	}})
}

// scC20E2E: end-to-end look-ahead bound of the non-Low-Latency download pipeline: however fast the server
// is, at most two downloaded segments wait while another one is being processed.
func scC20E2E(r *Run) {
	T := r.T
	g := &originGen{containers: []string{"ts", "fmp4"}, modes: []string{"vod", "vod", "event", "scripted"}, minSegs: 5, maxSegs: 14,
		renditions: true, byteRanges: true, multiFrag: false, segDurMs: []int{400, 1000, 2000}, noPDTChance: 5}
	o := genStubOrigin(r, g)
	for _, st := range o.streams {
		if st.mode == "scripted" {
			// a playlist that grows by one or two segments with every poll, however fast the polls come
			st.cursor = 2
			st.window = 0
			st.plType = "EVENT"
			for i := 0; i < 64; i++ {
				st.steps = append(st.steps, Pick(T, 1, 1, 2))
			}
			st.endAfter = len(st.segs)
			continue
		}
		if st.mode != "vod" {
			st.endAfter = len(st.segs)
			for _, sg := range st.segs {
				sg.availAt = 0 // everything is available at once: the server is as fast as it can be
			}
		}
	}
	if T.Chance(1, 5) {
		for _, st := range o.streams {
			st.hintNoBlock = true
			st.version = 9
		}
		r.Probe("preload-hint-without-block-reload")
	}
	w := newCliWorld(r, o, o.primaryURL(), plainFate(T, Pick(T, 0, 0, 5, 100, 3000)))
	total := time.Duration(len(o.streams[0].segs)) * o.streams[0].segs[0].dur
	w.limit = 3*total + 90*time.Second
	w.afterWait = time.Second
	r.Tracef("origin container=%s mode=%s streams=%d segs=%d dur=%v", o.streams[0].container, o.streams[0].mode, len(o.streams), len(o.streams[0].segs), o.streams[0].segs[0].dur)
	w.run()
	r.Tracef("end: wait=%v err=%s requests=%d", w.waitSeen, describeErr(w.waitErr), len(w.net.log))
	dl := downloadedSegments(w, o)
	w.mu.Lock()
	deliveries := w.deliveries
	w.mu.Unlock()
	// client track index of each (stream, track)
	ci := 0
	for _, st := range o.streams {
		reqs := dl[st]
		// time at which each downloaded segment was fully delivered (all its units, all tracks of the stream)
		doneAt := make([]time.Duration, len(reqs))
		complete := make([]bool, len(reqs))
		for k := range reqs {
			complete[k] = true
		}
		for ti, t := range st.tracks {
			if ci+ti >= len(deliveries) {
				break
			}
			got := deliveries[ci+ti]
			pos := 0
			for k, nr := range reqs {
				_, sg := st.classify(nr)
				n := sg.count[ti]
				// units preceding the origin are dropped: match by data from the current position
				last := time.Duration(-1)
				for j := 0; j < n; j++ {
					u := t.units[sg.first[ti]+j]
					if pos < len(got) && sameData(got[pos].data, u.data) {
						last = got[pos].at
						pos++
					} else if pos < len(got) && k > 0 {
						complete[k] = false
					}
				}
				if n > 0 && pos <= len(got) && last >= 0 {
					if last > doneAt[k] {
						doneAt[k] = last
					}
				} else if n > 0 && k > 0 {
					complete[k] = false
				}
			}
		}
		ci += len(st.tracks)
		// at the moment each download completes: downloaded - fully delivered <= 3
		for k, nr := range reqs {
			t := nr.deliveredAt
			done := 0
			for j := 0; j < k; j++ {
				if complete[j] && doneAt[j] <= t {
					done++
				}
			}
			if ahead := (k + 1) - done; ahead > 3 {
				r.Fail("look-ahead", "exceeded", "stream %s: when segment #%d finished downloading at %v, %d downloaded segments were not fully delivered yet (bound: two waiting + one in process)",
					st.name, k, t, ahead)
				return
			} else if ahead == 3 {
				r.Probe("look-ahead-at-bound")
			}
		}
	}
	r.Stats.NonTrivial = len(dl[o.streams[0]]) >= 4
	w.finish()
}

func init() {
	Properties["C20"].Profiles = append(Properties["C20"].Profiles, ProfileDef{Name: "e2e", Share: 4, Sc: scC20E2E})
}
