package sim

import (
	"bytes"
	"fmt"
	"sort"
	"strings"
	"time"
)

// Oracles over the recorded playlist / object history of a muxer run: C04, C05.

func (o *muxObs) reportProblems(r *Run, classes ...string) {
	for _, p := range o.problems {
		for _, c := range classes {
			if p.class == c {
				r.Fail(p.class, p.key, "%s", p.msg)
				return
			}
		}
	}
}

type msnEntry struct {
	uri string
	dur time.Duration
	gap bool
}

// oracleC04 checks how successive playlists of each stream evolve.
func (o *muxObs) oracleC04(r *Run) {
	o.reportProblems(r, "grammar", "blocked", "delta")
	if r.Failed() {
		return
	}
	cfg := o.w.cfg
	ll := cfg.vname == "ll"
	for _, s := range o.streams {
		byMSN := map[int]msnEntry{}
		byPart := map[int]string{}
		var prev *plSnap
		for _, sn := range s.history {
			pl := sn.pl
			if !pl.HasMediaSeq {
				r.Fail("media-sequence", "missing", "%s after call %d: EXT-X-MEDIA-SEQUENCE missing", s.uri, sn.afterCall)
				return
			}
			if len(pl.Segments) > cfg.segCount {
				r.Fail("segment-count", "exceeded", "%s after call %d lists %d segments, SegmentCount is %d", s.uri, sn.afterCall, len(pl.Segments), cfg.segCount)
				return
			}
			if len(pl.Segments) == 0 {
				r.Fail("segment-count", "empty", "%s after call %d lists no segment", s.uri, sn.afterCall)
				return
			}
			first := pl.MediaSequence
			last := first + len(pl.Segments) - 1
			for i, seg := range pl.Segments {
				msn := first + i
				e := msnEntry{stripQuery(seg.URI), seg.Duration, seg.Gap}
				if old, ok := byMSN[msn]; ok {
					if old != e {
						r.Fail("msn-function", "changed", "%s: media sequence number %d denoted %+v and later %+v (after call %d)", s.uri, msn, old, e, sn.afterCall)
						return
					}
				} else {
					byMSN[msn] = e
				}
				if !seg.Gap {
					if n := uriNumber(seg.URI); n != msn {
						r.Fail("uri-number", "segment", "%s: segment %s is listed with media sequence number %d", s.uri, seg.URI, msn)
						return
					}
				}
				if len(seg.Parts) > 0 && len(pl.Segments)-i > 2 {
					r.Fail("parts-placement", "old-segment", "%s after call %d: parts listed under segment %d, which is not one of the last two", s.uri, sn.afterCall, msn)
					return
				}
				if len(seg.Parts) > 0 && !ll {
					r.Fail("parts-placement", "non-ll", "%s: parts listed outside Low-Latency mode", s.uri)
					return
				}
			}
			// part numbering inside one playlist
			var nums []int
			var all []mPart
			for _, seg := range pl.Segments {
				all = append(all, seg.Parts...)
			}
			all = append(all, pl.TrailingParts...)
			for _, p := range all {
				n := uriNumber(p.URI)
				nums = append(nums, n)
				key := stripQuery(p.URI)
				if old, ok := byPart[n]; ok && old != key+p.Duration.String() {
					r.Fail("part-function", "changed", "%s: part %d changed from %s to %s", s.uri, n, old, key+p.Duration.String())
					return
				}
				byPart[n] = key + p.Duration.String()
			}
			for i := 1; i < len(nums); i++ {
				if nums[i] != nums[i-1]+1 {
					r.Fail("part-numbering", "gap", "%s after call %d: part numbers %v do not increase by exactly one", s.uri, sn.afterCall, nums)
					return
				}
			}
			if ll {
				if !pl.HasPreload {
					r.Fail("preload-hint", "missing", "%s after call %d: no preload hint in Low-Latency playlist", s.uri, sn.afterCall)
					return
				}
				if len(nums) > 0 && uriNumber(pl.PreloadHint) != nums[len(nums)-1]+1 {
					r.Fail("preload-hint", "number", "%s after call %d: preload hint %s does not name the part after %d", s.uri, sn.afterCall, pl.PreloadHint, nums[len(nums)-1])
					return
				}
			} else if pl.HasPreload {
				r.Fail("preload-hint", "non-ll", "%s: preload hint outside Low-Latency mode", s.uri)
				return
			}
			if prev != nil {
				pf := prev.pl.MediaSequence
				plast := pf + len(prev.pl.Segments) - 1
				if first < pf {
					r.Fail("media-sequence", "decreased", "%s: EXT-X-MEDIA-SEQUENCE went from %d to %d (after call %d)", s.uri, pf, first, sn.afterCall)
					return
				}
				if last < plast {
					r.Fail("tail", "shrunk", "%s: last listed segment went from %d back to %d (after call %d)", s.uri, plast, last, sn.afterCall)
					return
				}
				if first > pf {
					r.Probe("window-slid")
				}
				if first-pf >= 2 {
					r.Probe("window-slid-by-2-or-more")
				}
			}
			prev = sn
		}
		if len(s.history) > 0 {
			if d := s.history[len(s.history)-1].pl.MediaSequence - s.history[0].pl.MediaSequence; d >= cfg.segCount {
				r.Probe("window-slid-whole-window")
			}
		}
	}
	// all streams expose the same MSNs and durations at the same time
	if len(o.streams) > 1 {
		calls := map[int]bool{}
		for _, s := range o.streams {
			for _, sn := range s.history {
				calls[sn.afterCall] = true
			}
		}
		var cs []int
		for c := range calls {
			cs = append(cs, c)
		}
		sort.Ints(cs)
		cur := func(s *streamObs, c int) *plSnap {
			var out *plSnap
			for _, sn := range s.history {
				if sn.afterCall <= c {
					out = sn
				}
			}
			return out
		}
		for _, c := range cs {
			ref := cur(o.streams[0], c)
			if ref == nil {
				continue
			}
			for _, s := range o.streams[1:] {
				sn := cur(s, c)
				if sn == nil {
					r.Fail("streams-aligned", "missing", "after call %d stream %s has a playlist but %s has none", c, o.streams[0].uri, s.uri)
					return
				}
				if sn.pl.MediaSequence != ref.pl.MediaSequence || len(sn.pl.Segments) != len(ref.pl.Segments) {
					r.Fail("streams-aligned", "msn", "after call %d: %s lists msn %d+%d, %s lists %d+%d", c, o.streams[0].uri,
						ref.pl.MediaSequence, len(ref.pl.Segments), s.uri, sn.pl.MediaSequence, len(sn.pl.Segments))
					return
				}
				for i := range sn.pl.Segments {
					if sn.pl.Segments[i].Duration != ref.pl.Segments[i].Duration || sn.pl.Segments[i].Gap != ref.pl.Segments[i].Gap {
						r.Fail("streams-aligned", "duration", "after call %d: msn %d has duration %v in %s and %v in %s", c,
							ref.pl.MediaSequence+i, ref.pl.Segments[i].Duration, o.streams[0].uri, sn.pl.Segments[i].Duration, s.uri)
						return
					}
				}
			}
		}
	}
}

// latestMSN is the media sequence number at the head of a stream's latest playlist.
func (s *streamObs) latestMSN() int {
	if len(s.history) == 0 {
		return 0
	}
	return s.history[len(s.history)-1].pl.MediaSequence
}

// oracleC05 checks fetchability, immutability, part/segment consistency.
func (o *muxObs) oracleC05(r *Run) {
	o.reportProblems(r, "grammar", "blocked", "fetch", "immutable", "gone")
	if r.Failed() {
		return
	}
	cfg := o.w.cfg
	if cfg.vname == "mpegts" {
		return
	}
	for _, s := range o.streams {
		// segments of this stream by msn, parts by number
		var segs, parts []*mediaObj
		for _, obj := range o.order {
			if obj.stream != s {
				continue
			}
			switch obj.kind {
			case "segment":
				segs = append(segs, obj)
			case "part":
				parts = append(parts, obj)
			}
		}
		sort.Slice(segs, func(i, j int) bool { return segs[i].msn < segs[j].msn })
		sort.Slice(parts, func(i, j int) bool { return parts[i].num < parts[j].num })
		for _, obj := range append(append([]*mediaObj(nil), segs...), parts...) {
			if obj.decErr != nil {
				r.Fail("decode", obj.kind, "%s %s does not decode as fMP4: %v", obj.kind, obj.uri, obj.decErr)
				return
			}
		}
		if cfg.vname == "ll" {
			for _, p := range parts {
				if len(p.parts) != 1 {
					r.Fail("part-fragments", "count", "part %s holds %d fragments", p.uri, len(p.parts))
					return
				}
				if int(p.parts[0].SequenceNumber) != p.num {
					r.Fail("sequence-number", "part", "part %s carries fragment sequence number %d", p.uri, p.parts[0].SequenceNumber)
					return
				}
			}
			for _, sg := range segs {
				var cat []byte
				n := 0
				for _, p := range parts {
					if p.msn == sg.msn {
						cat = append(cat, p.body...)
						n++
					}
				}
				if n == 0 {
					// parts of the very first observed segments may never have been listed under our eyes
					r.Probe("segment-without-observed-parts")
					continue
				}
				if !bytes.Equal(cat, sg.body) {
					r.Fail("segment-is-concat-of-parts", "mismatch", "segment %s (%d bytes) is not the concatenation of its %d parts (%d bytes)",
						sg.uri, len(sg.body), n, len(cat))
					return
				}
				r.Probe("segment-equals-parts")
			}
		} else {
			// fragments are numbered consecutively across the stream
			prev := -1
			prevMSN := -1
			for _, sg := range segs {
				for _, f := range sg.parts {
					if prev >= 0 && prevMSN+1 >= sg.msn && int(f.SequenceNumber) != prev+1 {
						r.Fail("sequence-number", "fragment", "segment %s: fragment sequence number %d follows %d", sg.uri, f.SequenceNumber, prev)
						return
					}
					prev = int(f.SequenceNumber)
				}
				prevMSN = sg.msn
			}
		}
	}
	// unknown URIs
	for _, u := range o.unknownURIs() {
		resp := o.w.get(u)
		if !resp.isDone() {
			r.Fail("blocked", "unknown-uri", "request for unknown URI %s blocked", u)
			return
		}
		if resp.effStatus() == 200 && len(resp.body) > 0 {
			r.Fail("gone", "unknown-uri", "unknown URI %s returned %d bytes with status 200", u, len(resp.body))
			return
		}
	}
}

func (o *muxObs) unknownURIs() []string {
	out := []string{"nonexistent.mp4", "gap.mp4", "seg0.mp4", "main_seg99999.ts", "index.m3u8x", "../index.m3u8/none"}
	// near misses derived from a real URI: other prefix, number far ahead
	known := map[string]bool{}
	for _, obj := range o.order {
		known[obj.uri] = true
	}
	n := 0
	for _, obj := range o.order {
		if obj.kind == "segment" {
			u := obj.uri
			if n == 0 {
				out = append(out, "x"+u, fmt.Sprintf("%s_far_seg%d.mp4", u[:min(4, len(u))], 1<<30))
			}
			// part-shaped and segment-shaped names around a real one that were never advertised
			if i := strings.LastIndex(u, "_seg"); i >= 0 && n < 3 {
				for _, k := range []int{0, 1, obj.msn, obj.msn + 1} {
					for _, cand := range []string{fmt.Sprintf("%s_part%d.mp4", u[:i], k), fmt.Sprintf("%s_part%d.ts", u[:i], k)} {
						if !known[cand] && o.w.cfg.vname != "ll" {
							out = append(out, cand)
						}
					}
				}
			}
			n++
		}
	}
	return out
}
