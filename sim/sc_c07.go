package sim

import (
	"fmt"
	"strings"

	"github.com/bluenviron/gohlslib/v2"
)

// C07: Close unblocks every request and releases all storage.

type clientReq struct {
	kind    string
	resp    *httpResp
	task    *Task
	blocked bool // observed durably blocked inside the muxer when Close started
}

// guessed stream playlist names, used only to place requests before any content exists
// (a wrong guess reaches no handler and simply does not block)
func guessStreamURIs(c *muxCfg) []string {
	if c.vname == "mpegts" {
		return []string{"main_stream.m3u8"}
	}
	var out []string
	for i, ts := range c.tracks {
		if ts.video {
			out = append(out, fmt.Sprintf("video%d_stream.m3u8", i+1))
		} else {
			out = append(out, fmt.Sprintf("audio%d_stream.m3u8", i+1))
		}
	}
	return out
}

func scC07(r *Run) {
	T := r.T
	g := &muxGen{variants: allVariants, minCalls: 10, maxCalls: 120, paramChanges: true, fastRotation: T.Chance(1, 2)}
	if T.Chance(1, 6) {
		// a stream that never carries a PPS: the first rotation fails, Write returns an error, the application closes
		g.noPPS, g.forceVideo, g.paramChanges = true, true, false
	}
	cfg := genMuxCfg(r, g)
	script := genScript(r, cfg, g)
	w, err := newMuxWorld(r, cfg, script)
	if err != nil {
		r.Probe("start-error")
		return
	}
	w.probesBypassHooks = true
	sites := []string{"close.afterUnlock", "close.afterBroadcast", "server.beforeHandler",
		"preload.beforeDelegate", "rotate.beforeBroadcast"}
	armed := ""
	for _, s := range sites {
		if T.Chance(1, 2) {
			r.Arm(s)
			armed += " " + s
		}
	}
	r.Arm("rotate.afterBroadcast") // see sc_c06.go: keeps multi-rotation writes repeatable
	// when is Close called: before data, early, mid-stream
	closeAfter := 0
	switch T.Intn(4) {
	case 0:
		closeAfter = 0
	case 1:
		closeAfter = T.Range(1, 6)
	default:
		closeAfter = T.Range(1, len(script))
	}
	maxClients := T.Range(0, 10)
	r.Tracef("config %s calls=%d closeAfter=%d maxClients=%d armed=[%s]", cfg, len(script), closeAfter, maxClients, armed)

	streamURIs := guessStreamURIs(cfg)
	var latest *mediaPL // latest playlist of the first stream (LL: preload hint, msn)
	content := false
	refresh := func() {
		if !content {
			idx := w.get("index.m3u8")
			if !idx.isDone() {
				return // still waiting for first content; the probe stays pending and is answered later
			}
			content = true
			if mp, err := parseMultivariant(idx.body); err == nil {
				streamURIs = nil
				for _, v := range mp.Variants {
					streamURIs = append(streamURIs, stripQuery(v.URI))
				}
				for _, rd := range mp.Renditions {
					if rd.HasURI {
						streamURIs = append(streamURIs, stripQuery(rd.URI))
					}
				}
			}
		}
		if len(streamURIs) > 0 {
			p := w.get(streamURIs[0])
			if p.isDone() && p.effStatus() == 200 {
				if pl, err := parseMediaPlaylist(p.body); err == nil {
					latest = pl
				}
			}
		}
	}

	var clients []*clientReq
	nClient := 0
	issue := func(kind, path string) {
		t := w.newClient(fmt.Sprintf("client%d", nClient))
		nClient++
		cr := &clientReq{kind: kind, task: t}
		cr.resp = w.request(t, path)
		clients = append(clients, cr)
		syncWait()
		w.poll()
		r.Cell("c07 %s %s", cfg.vname, kind)
	}
	requestActions := func(weight int) []Action {
		var acts []Action
		acts = append(acts, Action{"request index", weight, func() { issue("index", "index.m3u8") }})
		for i, u := range streamURIs {
			u := u
			acts = append(acts, Action{fmt.Sprintf("request media[%d]", i), weight, func() { issue("media", u) }})
		}
		if cfg.vname == "ll" && latest != nil {
			msn := latest.MediaSequence + len(latest.Segments) // the open segment
			np := len(latest.TrailingParts)
			u := streamURIs[T.Intn(len(streamURIs))]
			acts = append(acts,
				Action{"request blocking-reload next part", weight, func() {
					issue("blocking-reload", fmt.Sprintf("%s?_HLS_msn=%d&_HLS_part=%d", u, msn, np))
				}},
				Action{"request blocking-reload next segment", weight, func() {
					issue("blocking-reload", fmt.Sprintf("%s?_HLS_msn=%d", u, msn+1))
				}},
			)
			if latest.HasPreload {
				hint := latest.PreloadHint
				acts = append(acts, Action{"request preload-hint", 2 * weight, func() { issue("preload-hint", hint) }})
			}
			if len(latest.Segments) > 0 && !latest.Segments[len(latest.Segments)-1].Gap {
				seg := latest.Segments[len(latest.Segments)-1].URI
				acts = append(acts, Action{"request segment", weight, func() { issue("segment", seg) }})
			}
		} else if latest != nil && len(latest.Segments) > 0 {
			seg := latest.Segments[len(latest.Segments)-1].URI
			acts = append(acts, Action{"request segment", weight, func() { issue("segment", seg) }})
		}
		return acts
	}
	resumeActions := func(weight int) []Action {
		var acts []Action
		for _, t := range r.ParkedTasks() {
			t := t
			acts = append(acts, Action{"resume " + t.Name + "@" + t.Parked(), weight, func() { t.Resume(); w.poll() }})
		}
		return acts
	}

	// phase 1: writes and requests up to the Close point
	// at rest nobody may hold the muxer mutex: every hook and every blocking point is outside its critical sections
	lockLeaked := func(when string) bool {
		if gohlslib.VerifMutexFree(w.m) {
			return false
		}
		r.Fail("lock-left-held", when, "with every goroutine at rest (%s) the muxer's mutex is held: a handler returned without releasing it", when)
		w.abandon()
		return true
	}
	for w.next < closeAfter && r.Stats.Steps < 2000 && !r.Failed() {
		if lockLeaked("before-close") {
			return
		}
		var acts []Action
		if w.writer.Idle() && w.next < len(w.script) {
			acts = append(acts, Action{"write", 10, func() {
				cl := w.writeNext()
				w.poll()
				if cl.done && cl.err != nil {
					closeAfter = w.next // stop writing after an error
				}
				if cl.done {
					refresh()
				}
			}})
		}
		if len(clients) < maxClients {
			acts = append(acts, requestActions(2)...)
		}
		acts = append(acts, resumeActions(6)...)
		if len(acts) == 0 {
			break
		}
		r.Choose(acts)
	}
	// let a parked writer finish its call before Close (one writer goroutine calls Write* and finally Close)
	for i := 0; i < 20 && !w.writer.Idle(); i++ {
		if w.writer.Parked() != "" {
			r.Step()
			r.Tracef("resume writer@%s (before close)", w.writer.Parked())
			w.writer.Resume()
		}
	}
	if !w.writer.Idle() {
		r.Fail("write-blocked", "write", "a Write call did not return")
		return
	}
	// a few more requests right before Close so that some are in flight
	for i := T.Intn(4); i > 0 && len(clients) < maxClients && !r.Failed(); i-- {
		r.Choose(requestActions(1))
	}
	w.poll()
	nBlocked := 0
	for _, c := range clients {
		if !c.resp.isDone() && c.task.Blocked() {
			c.blocked = true
			nBlocked++
			r.Cell("c07 blocked-at-close %s %s", cfg.vname, c.kind)
		}
	}
	r.Cell("c07 close point: content=%v", content)

	// phase 2: Close, interleaved with waiters and new requests
	r.Step()
	r.Tracef("close (pending=%d blocked=%d)", len(w.pending), nBlocked)
	w.closed = true
	w.writer.Start(func() { w.m.Close() })
	for !w.writer.Idle() && r.Stats.Steps < 4000 {
		if lockLeaked("during-close") {
			return
		}
		var acts []Action
		acts = append(acts, resumeActions(6)...)
		if len(clients) < maxClients+2 {
			acts = append(acts, requestActions(1)...)
		}
		if len(acts) == 0 {
			break
		}
		r.Choose(acts)
	}
	if !w.writer.Idle() {
		r.Fail("close-blocked", "close", "Close did not return")
		return
	}
	r.Probe("close-returned")
	// phase 3: after Close returned
	for i := 0; i < 100; i++ {
		pk := r.ParkedTasks()
		if len(pk) == 0 {
			break
		}
		for _, t := range pk {
			r.Step()
			r.Tracef("resume %s@%s (after close)", t.Name, t.Parked())
			t.Resume()
		}
	}
	w.poll()
	kindsPending := func() string {
		m := map[string]bool{}
		for _, c := range clients {
			if !c.resp.isDone() {
				m[c.kind] = true
			}
		}
		var ks []string
		for _, k := range []string{"index", "media", "blocking-reload", "preload-hint", "segment"} {
			if m[k] {
				ks = append(ks, k)
			}
		}
		return strings.Join(ks, "+")
	}
	if !gohlslib.VerifMutexFree(w.m) {
		r.Fail("lock-left-held", kindsOf(clients), "after Close returned the muxer's mutex is still held (requests at close: %s)", kindsOf(clients))
		w.abandon()
		return
	}
	for _, c := range clients {
		if !c.resp.isDone() {
			r.Fail("not-unblocked", c.kind, "after Close returned, the %s request %s is still blocked inside the muxer (still pending: %s)", c.kind, c.resp.path, kindsPending())
			w.abandon()
			return
		}
	}
	for _, c := range clients {
		if c.blocked && c.resp.effStatus() == 200 {
			r.Fail("status-after-close", c.kind, "the %s request %s was blocked when Close was called and completed with status 200", c.kind, c.resp.path)
			w.abandon()
			return
		}
	}
	// requests issued later return promptly too
	r.DisarmAll()
	later := []string{"index.m3u8", "nonexistent.mp4"}
	later = append(later, streamURIs...)
	if latest != nil {
		if latest.HasPreload {
			later = append(later, latest.PreloadHint)
		}
		if cfg.vname == "ll" {
			later = append(later, fmt.Sprintf("%s?_HLS_msn=%d&_HLS_part=0", streamURIs[0], latest.MediaSequence+len(latest.Segments)+1))
		}
		for _, sg := range latest.Segments {
			if !sg.Gap {
				later = append(later, sg.URI)
				break
			}
		}
	}
	for _, p := range later {
		if !gohlslib.VerifMutexFree(w.m) {
			r.Fail("lock-left-held", "after-later-request", "a request issued after Close left the muxer's mutex held (before requesting %s)", p)
			w.abandon()
			return
		}
		resp := w.get(p)
		if !resp.isDone() {
			r.Fail("later-request-blocked", "later", "request %s issued after Close did not return", p)
			w.abandon()
			return
		}
	}
	if cfg.disk {
		if es := w.dirEntries(); len(es) > 0 {
			r.Fail("directory-not-empty", "files", "after Close the Directory still holds %v", es)
		} else {
			r.Probe("directory-empty-checked")
		}
	}
	r.Stats.NonTrivial = len(clients) > 0
	w.finish()
}

func kindsOf(cs []*clientReq) string {
	m := map[string]bool{}
	for _, c := range cs {
		if c.blocked {
			m[c.kind] = true
		}
	}
	var ks []string
	for _, k := range []string{"index", "media", "blocking-reload", "preload-hint", "segment"} {
		if m[k] {
			ks = append(ks, k)
		}
	}
	if len(ks) == 0 {
		return "none"
	}
	return strings.Join(ks, "+")
}

// abandon ends a run whose muxer can no longer be touched safely (e.g. its mutex leaked).
func (w *muxWorld) abandon() {
	w.r.StopTasks()
}

func init() {
	register(&PropDef{ID: "C07", Quick: 12000, Thorough: 1000000, Profiles: []ProfileDef{{Name: "close", Share: 1, Sc: scC07}}})
}
