package sim

import (
	"fmt"
	"strconv"
	"strings"
	"time"
)

// Strict, independent M3U8 reader (RFC 8216 / 8216bis) for the tags gohlslib's
// muxer emits and its client consumes. It never uses pkg/playlist.

type attrVal struct {
	raw    string
	quoted bool
}

type attrs map[string]attrVal

// attribute lexical types
const (
	atInt    = iota // decimal-integer
	atFloat         // decimal-floating-point
	atSFloat        // signed-decimal-floating-point
	atQuoted        // quoted-string
	atEnum          // enumerated-string
	atHex           // hexadecimal-sequence
	atRes           // decimal-resolution
)

func isAttrNameChar(c byte) bool {
	return (c >= 'A' && c <= 'Z') || (c >= '0' && c <= '9') || c == '-'
}

func parseAttrs(s string) (attrs, error) {
	out := attrs{}
	i := 0
	for i < len(s) {
		j := i
		for j < len(s) && isAttrNameChar(s[j]) {
			j++
		}
		if j == i || j >= len(s) || s[j] != '=' {
			return nil, fmt.Errorf("bad attribute name at offset %d in %q", i, s)
		}
		name := s[i:j]
		j++
		var v attrVal
		if j < len(s) && s[j] == '"' {
			k := strings.IndexByte(s[j+1:], '"')
			if k < 0 {
				return nil, fmt.Errorf("unterminated quoted string for %s", name)
			}
			v = attrVal{raw: s[j+1 : j+1+k], quoted: true}
			if strings.ContainsAny(v.raw, "\r\n") {
				return nil, fmt.Errorf("line break inside quoted string for %s", name)
			}
			j = j + 1 + k + 1
		} else {
			k := j
			for k < len(s) && s[k] != ',' {
				if s[k] == '"' || s[k] == ' ' || s[k] == '\t' {
					return nil, fmt.Errorf("illegal character in unquoted value of %s", name)
				}
				k++
			}
			if k == j {
				return nil, fmt.Errorf("empty value for %s", name)
			}
			v = attrVal{raw: s[j:k]}
			j = k
		}
		if _, dup := out[name]; dup {
			return nil, fmt.Errorf("duplicate attribute %s", name)
		}
		out[name] = v
		if j < len(s) {
			if s[j] != ',' {
				return nil, fmt.Errorf("expected ',' after %s", name)
			}
			j++
			if j == len(s) {
				return nil, fmt.Errorf("trailing comma in attribute list")
			}
		}
		i = j
	}
	if len(out) == 0 {
		return nil, fmt.Errorf("empty attribute list")
	}
	return out, nil
}

func isDigits(s string) bool {
	if s == "" {
		return false
	}
	for i := 0; i < len(s); i++ {
		if s[i] < '0' || s[i] > '9' {
			return false
		}
	}
	return true
}

func isDecFloat(s string) bool {
	p := strings.SplitN(s, ".", 2)
	if !isDigits(p[0]) {
		return false
	}
	return len(p) == 1 || isDigits(p[1])
}

func checkAttrType(tag, name string, v attrVal, typ int) error {
	bad := func(what string) error {
		return fmt.Errorf("%s: attribute %s=%q is not a %s", tag, name, v.raw, what)
	}
	switch typ {
	case atInt:
		if v.quoted || !isDigits(v.raw) || len(v.raw) > 20 {
			return bad("decimal-integer")
		}
	case atFloat:
		if v.quoted || !isDecFloat(v.raw) {
			return bad("decimal-floating-point")
		}
	case atSFloat:
		r := strings.TrimPrefix(v.raw, "-")
		if v.quoted || !isDecFloat(r) {
			return bad("signed-decimal-floating-point")
		}
	case atQuoted:
		if !v.quoted {
			return bad("quoted-string")
		}
	case atEnum:
		if v.quoted {
			return bad("enumerated-string")
		}
	case atHex:
		if v.quoted || !(strings.HasPrefix(v.raw, "0x") || strings.HasPrefix(v.raw, "0X")) || len(v.raw) < 3 {
			return bad("hexadecimal-sequence")
		}
	case atRes:
		p := strings.Split(v.raw, "x")
		if v.quoted || len(p) != 2 || !isDigits(p[0]) || !isDigits(p[1]) {
			return bad("decimal-resolution")
		}
	}
	return nil
}

var attrTypes = map[string]map[string]int{
	"EXT-X-SERVER-CONTROL": {"CAN-BLOCK-RELOAD": atEnum, "PART-HOLD-BACK": atFloat, "HOLD-BACK": atFloat,
		"CAN-SKIP-UNTIL": atFloat, "CAN-SKIP-DATERANGES": atEnum},
	"EXT-X-PART-INF":     {"PART-TARGET": atFloat},
	"EXT-X-MAP":          {"URI": atQuoted, "BYTERANGE": atQuoted},
	"EXT-X-SKIP":         {"SKIPPED-SEGMENTS": atInt, "RECENTLY-REMOVED-DATERANGES": atQuoted},
	"EXT-X-PART":         {"URI": atQuoted, "DURATION": atFloat, "INDEPENDENT": atEnum, "BYTERANGE": atQuoted, "GAP": atEnum},
	"EXT-X-PRELOAD-HINT": {"TYPE": atEnum, "URI": atQuoted, "BYTERANGE-START": atInt, "BYTERANGE-LENGTH": atInt},
	"EXT-X-KEY":          {"METHOD": atEnum, "URI": atQuoted, "IV": atHex, "KEYFORMAT": atQuoted, "KEYFORMATVERSIONS": atQuoted},
	"EXT-X-START":        {"TIME-OFFSET": atSFloat, "PRECISE": atEnum},
	"EXT-X-STREAM-INF": {"BANDWIDTH": atInt, "AVERAGE-BANDWIDTH": atInt, "CODECS": atQuoted, "RESOLUTION": atRes,
		"FRAME-RATE": atFloat, "HDCP-LEVEL": atEnum, "AUDIO": atQuoted, "VIDEO": atQuoted, "SUBTITLES": atQuoted,
		"CLOSED-CAPTIONS": -1, "PROGRAM-ID": atInt, "VIDEO-RANGE": atEnum, "SCORE": atFloat, "STABLE-VARIANT-ID": atQuoted},
	"EXT-X-MEDIA": {"TYPE": atEnum, "URI": atQuoted, "GROUP-ID": atQuoted, "LANGUAGE": atQuoted, "ASSOC-LANGUAGE": atQuoted,
		"NAME": atQuoted, "DEFAULT": atEnum, "AUTOSELECT": atEnum, "FORCED": atEnum, "INSTREAM-ID": atQuoted,
		"CHARACTERISTICS": atQuoted, "CHANNELS": atQuoted, "STABLE-RENDITION-ID": atQuoted},
}

func typedAttrs(tag, s string) (attrs, error) {
	a, err := parseAttrs(s)
	if err != nil {
		return nil, fmt.Errorf("%s: %v", tag, err)
	}
	types := attrTypes[tag]
	for name, v := range a {
		typ, ok := types[name]
		if !ok {
			return nil, fmt.Errorf("%s: unknown attribute %s", tag, name)
		}
		if typ >= 0 {
			if err := checkAttrType(tag, name, v, typ); err != nil {
				return nil, err
			}
		}
	}
	return a, nil
}

// parseDecDur parses a decimal-floating-point number of seconds exactly.
func parseDecDur(s string) (time.Duration, error) {
	if !isDecFloat(s) {
		return 0, fmt.Errorf("bad decimal %q", s)
	}
	p := strings.SplitN(s, ".", 2)
	sec, err := strconv.ParseInt(p[0], 10, 64)
	if err != nil || sec > 9e9 {
		return 0, fmt.Errorf("bad decimal %q", s)
	}
	d := time.Duration(sec) * time.Second
	if len(p) == 2 {
		f := p[1]
		if len(f) > 9 {
			f = f[:9]
		}
		for len(f) < 9 {
			f += "0"
		}
		ns, _ := strconv.ParseInt(f, 10, 64)
		d += time.Duration(ns)
	}
	return d, nil
}

type mPart struct {
	URI         string
	Duration    time.Duration
	Independent bool
}

type mSegment struct {
	URI      string
	Duration time.Duration
	Title    string
	DateTime *time.Time
	Gap      bool
	Parts    []mPart
	BRLen    *uint64
	BRStart  *uint64
}

type mediaPL struct {
	Version        int
	Independent    bool
	AllowCache     string
	TargetDuration int
	MediaSequence  int
	HasMediaSeq    bool
	ServerControl  attrs
	PartTarget     time.Duration
	HasPartInf     bool
	PartHoldBack   time.Duration
	CanSkipUntil   time.Duration
	HasCanSkip     bool
	CanBlockReload bool
	MapURI         string
	HasMap         bool
	Skipped        int
	HasSkip        bool
	Segments       []mSegment
	TrailingParts  []mPart
	PreloadHint    string
	HasPreload     bool
	Endlist        bool
	PlaylistType   string
}

func parsePDT(s string) (time.Time, error) {
	for _, layout := range []string{"2006-01-02T15:04:05.999999999Z07:00", "2006-01-02T15:04:05.999999999Z0700"} {
		if t, err := time.Parse(layout, s); err == nil {
			return t, nil
		}
	}
	return time.Time{}, fmt.Errorf("bad EXT-X-PROGRAM-DATE-TIME %q", s)
}

func splitLines(b []byte) ([]string, error) {
	s := string(b)
	if !strings.HasSuffix(s, "\n") {
		return nil, fmt.Errorf("playlist does not end with a line break")
	}
	lines := strings.Split(s[:len(s)-1], "\n")
	for i, l := range lines {
		l = strings.TrimSuffix(l, "\r")
		if strings.ContainsAny(l, "\r\x00") {
			return nil, fmt.Errorf("control character in line %d", i+1)
		}
		lines[i] = l
	}
	return lines, nil
}

func parseBool(tag, name string, a attrs) (bool, error) {
	v, ok := a[name]
	if !ok {
		return false, nil
	}
	switch v.raw {
	case "YES":
		return true, nil
	case "NO":
		return false, nil
	}
	return false, fmt.Errorf("%s: %s must be YES or NO, is %q", tag, name, v.raw)
}

func parsePartAttrs(a attrs) (mPart, error) {
	var p mPart
	u, ok := a["URI"]
	if !ok || u.raw == "" {
		return p, fmt.Errorf("EXT-X-PART without URI")
	}
	d, ok := a["DURATION"]
	if !ok {
		return p, fmt.Errorf("EXT-X-PART without DURATION")
	}
	dd, err := parseDecDur(d.raw)
	if err != nil {
		return p, err
	}
	ind, err := parseBool("EXT-X-PART", "INDEPENDENT", a)
	if err != nil {
		return p, err
	}
	return mPart{URI: u.raw, Duration: dd, Independent: ind}, nil
}

// parseMediaPlaylist reads a media playlist strictly.
func parseMediaPlaylist(b []byte) (*mediaPL, error) {
	lines, err := splitLines(b)
	if err != nil {
		return nil, err
	}
	if len(lines) == 0 || lines[0] != "#EXTM3U" {
		return nil, fmt.Errorf("first line is not #EXTM3U")
	}
	pl := &mediaPL{}
	seen := map[string]bool{}
	once := func(tag string) error {
		if seen[tag] {
			return fmt.Errorf("%s appears more than once", tag)
		}
		seen[tag] = true
		return nil
	}
	var cur mSegment
	curHasInf, curDirty := false, false
	for ln, line := range lines[1:] {
		fail := func(e error) error { return fmt.Errorf("line %d: %v", ln+2, e) }
		if line == "" {
			continue
		}
		if line[0] != '#' {
			if !curHasInf {
				return nil, fail(fmt.Errorf("URI line %q without preceding EXTINF", line))
			}
			if strings.ContainsAny(line, " \t") {
				return nil, fail(fmt.Errorf("whitespace in URI line"))
			}
			cur.URI = line
			pl.Segments = append(pl.Segments, cur)
			cur = mSegment{}
			curHasInf, curDirty = false, false
			continue
		}
		if !strings.HasPrefix(line, "#EXT") {
			continue // comment
		}
		tag, val := line[1:], ""
		if i := strings.IndexByte(tag, ':'); i >= 0 {
			tag, val = tag[:i], tag[i+1:]
		}
		if pl.Endlist {
			return nil, fail(fmt.Errorf("tag %s after EXT-X-ENDLIST", tag))
		}
		headerOnly := func() error {
			if len(pl.Segments) > 0 || curDirty {
				return fmt.Errorf("%s must appear before the first segment", tag)
			}
			return once(tag)
		}
		switch tag {
		case "EXTM3U":
			return nil, fail(fmt.Errorf("EXTM3U repeated"))
		case "EXT-X-VERSION":
			if err := headerOnly(); err != nil {
				return nil, fail(err)
			}
			if !isDigits(val) {
				return nil, fail(fmt.Errorf("bad version %q", val))
			}
			pl.Version, _ = strconv.Atoi(val)
		case "EXT-X-INDEPENDENT-SEGMENTS":
			if err := once(tag); err != nil {
				return nil, fail(err)
			}
			if val != "" {
				return nil, fail(fmt.Errorf("%s takes no value", tag))
			}
			pl.Independent = true
		case "EXT-X-ALLOW-CACHE":
			if err := headerOnly(); err != nil {
				return nil, fail(err)
			}
			if val != "YES" && val != "NO" {
				return nil, fail(fmt.Errorf("bad EXT-X-ALLOW-CACHE %q", val))
			}
			pl.AllowCache = val
		case "EXT-X-TARGETDURATION":
			if err := headerOnly(); err != nil {
				return nil, fail(err)
			}
			if !isDigits(val) {
				return nil, fail(fmt.Errorf("EXT-X-TARGETDURATION %q is not a decimal-integer", val))
			}
			pl.TargetDuration, _ = strconv.Atoi(val)
		case "EXT-X-MEDIA-SEQUENCE":
			if err := headerOnly(); err != nil {
				return nil, fail(err)
			}
			if !isDigits(val) {
				return nil, fail(fmt.Errorf("EXT-X-MEDIA-SEQUENCE %q is not a decimal-integer", val))
			}
			pl.MediaSequence, _ = strconv.Atoi(val)
			pl.HasMediaSeq = true
		case "EXT-X-DISCONTINUITY-SEQUENCE":
			if err := headerOnly(); err != nil {
				return nil, fail(err)
			}
			if !isDigits(val) {
				return nil, fail(fmt.Errorf("bad %s", tag))
			}
		case "EXT-X-PLAYLIST-TYPE":
			if err := headerOnly(); err != nil {
				return nil, fail(err)
			}
			if val != "VOD" && val != "EVENT" {
				return nil, fail(fmt.Errorf("bad playlist type %q", val))
			}
			pl.PlaylistType = val
		case "EXT-X-SERVER-CONTROL":
			if err := once(tag); err != nil {
				return nil, fail(err)
			}
			a, err := typedAttrs(tag, val)
			if err != nil {
				return nil, fail(err)
			}
			pl.ServerControl = a
			if pl.CanBlockReload, err = parseBool(tag, "CAN-BLOCK-RELOAD", a); err != nil {
				return nil, fail(err)
			}
			if v, ok := a["PART-HOLD-BACK"]; ok {
				pl.PartHoldBack, _ = parseDecDur(v.raw)
			}
			if v, ok := a["CAN-SKIP-UNTIL"]; ok {
				pl.CanSkipUntil, _ = parseDecDur(v.raw)
				pl.HasCanSkip = true
			}
		case "EXT-X-PART-INF":
			if err := once(tag); err != nil {
				return nil, fail(err)
			}
			a, err := typedAttrs(tag, val)
			if err != nil {
				return nil, fail(err)
			}
			v, ok := a["PART-TARGET"]
			if !ok {
				return nil, fail(fmt.Errorf("EXT-X-PART-INF without PART-TARGET"))
			}
			pl.PartTarget, _ = parseDecDur(v.raw)
			pl.HasPartInf = true
		case "EXT-X-MAP":
			a, err := typedAttrs(tag, val)
			if err != nil {
				return nil, fail(err)
			}
			v, ok := a["URI"]
			if !ok || v.raw == "" {
				return nil, fail(fmt.Errorf("EXT-X-MAP without URI"))
			}
			if pl.HasMap {
				return nil, fail(fmt.Errorf("second EXT-X-MAP (the muxer serves one)"))
			}
			pl.MapURI, pl.HasMap = v.raw, true
		case "EXT-X-SKIP":
			if err := headerOnly(); err != nil {
				return nil, fail(err)
			}
			a, err := typedAttrs(tag, val)
			if err != nil {
				return nil, fail(err)
			}
			v, ok := a["SKIPPED-SEGMENTS"]
			if !ok {
				return nil, fail(fmt.Errorf("EXT-X-SKIP without SKIPPED-SEGMENTS"))
			}
			pl.Skipped, _ = strconv.Atoi(v.raw)
			pl.HasSkip = true
		case "EXT-X-GAP":
			if val != "" {
				return nil, fail(fmt.Errorf("EXT-X-GAP takes no value"))
			}
			if cur.Gap {
				return nil, fail(fmt.Errorf("EXT-X-GAP repeated for one segment"))
			}
			cur.Gap, curDirty = true, true
		case "EXT-X-DISCONTINUITY":
			curDirty = true
		case "EXT-X-PROGRAM-DATE-TIME":
			t, err := parsePDT(val)
			if err != nil {
				return nil, fail(err)
			}
			if cur.DateTime != nil {
				return nil, fail(fmt.Errorf("EXT-X-PROGRAM-DATE-TIME repeated for one segment"))
			}
			cur.DateTime, curDirty = &t, true
		case "EXT-X-BITRATE":
			if !isDigits(val) {
				return nil, fail(fmt.Errorf("bad EXT-X-BITRATE"))
			}
		case "EXT-X-KEY":
			if _, err := typedAttrs(tag, val); err != nil {
				return nil, fail(err)
			}
		case "EXT-X-START":
			if _, err := typedAttrs(tag, val); err != nil {
				return nil, fail(err)
			}
		case "EXT-X-PART":
			if curHasInf {
				return nil, fail(fmt.Errorf("EXT-X-PART between EXTINF and the segment URI"))
			}
			a, err := typedAttrs(tag, val)
			if err != nil {
				return nil, fail(err)
			}
			p, err := parsePartAttrs(a)
			if err != nil {
				return nil, fail(err)
			}
			cur.Parts = append(cur.Parts, p)
			curDirty = true
		case "EXTINF":
			if curHasInf {
				return nil, fail(fmt.Errorf("two EXTINF for one segment"))
			}
			i := strings.IndexByte(val, ',')
			if i < 0 {
				return nil, fail(fmt.Errorf("EXTINF without comma"))
			}
			d, err := parseDecDur(val[:i])
			if err != nil {
				return nil, fail(err)
			}
			cur.Duration, cur.Title = d, val[i+1:]
			curHasInf, curDirty = true, true
		case "EXT-X-BYTERANGE":
			if !curHasInf {
				return nil, fail(fmt.Errorf("EXT-X-BYTERANGE before EXTINF"))
			}
			p := strings.SplitN(val, "@", 2)
			if !isDigits(p[0]) || (len(p) == 2 && !isDigits(p[1])) {
				return nil, fail(fmt.Errorf("bad EXT-X-BYTERANGE %q", val))
			}
			n, _ := strconv.ParseUint(p[0], 10, 64)
			cur.BRLen = &n
			if len(p) == 2 {
				o, _ := strconv.ParseUint(p[1], 10, 64)
				cur.BRStart = &o
			}
		case "EXT-X-PRELOAD-HINT":
			a, err := typedAttrs(tag, val)
			if err != nil {
				return nil, fail(err)
			}
			if a["TYPE"].raw != "PART" && a["TYPE"].raw != "MAP" {
				return nil, fail(fmt.Errorf("bad preload hint TYPE %q", a["TYPE"].raw))
			}
			if a["TYPE"].raw == "PART" {
				if pl.HasPreload {
					return nil, fail(fmt.Errorf("more than one EXT-X-PRELOAD-HINT of TYPE=PART"))
				}
				u, ok := a["URI"]
				if !ok || u.raw == "" {
					return nil, fail(fmt.Errorf("preload hint without URI"))
				}
				pl.PreloadHint, pl.HasPreload = u.raw, true
			}
		case "EXT-X-ENDLIST":
			pl.Endlist = true
		default:
			return nil, fail(fmt.Errorf("unknown tag #%s", tag))
		}
	}
	if curHasInf || cur.Gap || cur.DateTime != nil || cur.BRLen != nil {
		return nil, fmt.Errorf("segment tags at the end of the playlist without a URI line")
	}
	pl.TrailingParts = cur.Parts
	if !seen["EXT-X-TARGETDURATION"] {
		return nil, fmt.Errorf("EXT-X-TARGETDURATION missing")
	}
	if !seen["EXT-X-VERSION"] {
		return nil, fmt.Errorf("EXT-X-VERSION missing")
	}
	if len(pl.TrailingParts) > 0 && !pl.HasPartInf {
		return nil, fmt.Errorf("EXT-X-PART without EXT-X-PART-INF")
	}
	return pl, nil
}

type mvRendition struct {
	Type, GroupID, Name, Language string
	URI                           string
	HasURI                        bool
	Default, Autoselect           bool
}

type mvVariant struct {
	Bandwidth, AvgBandwidth int
	HasAvg                  bool
	Codecs                  []string
	Resolution              string
	FrameRate               string
	Audio                   string
	URI                     string
}

type multiPL struct {
	Version     int
	Independent bool
	Variants    []mvVariant
	Renditions  []mvRendition
}

func parseMultivariant(b []byte) (*multiPL, error) {
	lines, err := splitLines(b)
	if err != nil {
		return nil, err
	}
	if len(lines) == 0 || lines[0] != "#EXTM3U" {
		return nil, fmt.Errorf("first line is not #EXTM3U")
	}
	pl := &multiPL{}
	var pending *mvVariant
	seenVer := false
	for ln, line := range lines[1:] {
		fail := func(e error) error { return fmt.Errorf("line %d: %v", ln+2, e) }
		if line == "" {
			if pending != nil {
				return nil, fail(fmt.Errorf("blank line between EXT-X-STREAM-INF and its URI"))
			}
			continue
		}
		if line[0] != '#' {
			if pending == nil {
				return nil, fail(fmt.Errorf("URI line %q without EXT-X-STREAM-INF", line))
			}
			pending.URI = line
			pl.Variants = append(pl.Variants, *pending)
			pending = nil
			continue
		}
		if !strings.HasPrefix(line, "#EXT") {
			continue
		}
		if pending != nil {
			return nil, fail(fmt.Errorf("EXT-X-STREAM-INF not followed by a URI line"))
		}
		tag, val := line[1:], ""
		if i := strings.IndexByte(tag, ':'); i >= 0 {
			tag, val = tag[:i], tag[i+1:]
		}
		switch tag {
		case "EXT-X-VERSION":
			if seenVer || !isDigits(val) {
				return nil, fail(fmt.Errorf("bad or repeated EXT-X-VERSION"))
			}
			seenVer = true
			pl.Version, _ = strconv.Atoi(val)
		case "EXT-X-INDEPENDENT-SEGMENTS":
			pl.Independent = true
		case "EXT-X-START":
			if _, err := typedAttrs(tag, val); err != nil {
				return nil, fail(err)
			}
		case "EXT-X-MEDIA":
			a, err := typedAttrs(tag, val)
			if err != nil {
				return nil, fail(err)
			}
			r := mvRendition{Type: a["TYPE"].raw, GroupID: a["GROUP-ID"].raw, Name: a["NAME"].raw, Language: a["LANGUAGE"].raw}
			if _, ok := a["TYPE"]; !ok {
				return nil, fail(fmt.Errorf("EXT-X-MEDIA without TYPE"))
			}
			if _, ok := a["GROUP-ID"]; !ok {
				return nil, fail(fmt.Errorf("EXT-X-MEDIA without GROUP-ID"))
			}
			if _, ok := a["NAME"]; !ok {
				return nil, fail(fmt.Errorf("EXT-X-MEDIA without NAME"))
			}
			switch r.Type {
			case "AUDIO", "VIDEO", "SUBTITLES", "CLOSED-CAPTIONS":
			default:
				return nil, fail(fmt.Errorf("bad rendition TYPE %q", r.Type))
			}
			if u, ok := a["URI"]; ok {
				r.URI, r.HasURI = u.raw, true
			}
			if r.Default, err = parseBool(tag, "DEFAULT", a); err != nil {
				return nil, fail(err)
			}
			if r.Autoselect, err = parseBool(tag, "AUTOSELECT", a); err != nil {
				return nil, fail(err)
			}
			if r.Default {
				if v, ok := a["AUTOSELECT"]; ok && v.raw != "YES" {
					return nil, fail(fmt.Errorf("DEFAULT=YES requires AUTOSELECT=YES"))
				}
			}
			pl.Renditions = append(pl.Renditions, r)
		case "EXT-X-STREAM-INF":
			a, err := typedAttrs(tag, val)
			if err != nil {
				return nil, fail(err)
			}
			v := mvVariant{}
			bw, ok := a["BANDWIDTH"]
			if !ok {
				return nil, fail(fmt.Errorf("EXT-X-STREAM-INF without BANDWIDTH"))
			}
			v.Bandwidth, _ = strconv.Atoi(bw.raw)
			if ab, ok := a["AVERAGE-BANDWIDTH"]; ok {
				v.AvgBandwidth, _ = strconv.Atoi(ab.raw)
				v.HasAvg = true
			}
			if c, ok := a["CODECS"]; ok {
				v.Codecs = strings.Split(c.raw, ",")
			}
			v.Resolution = a["RESOLUTION"].raw
			v.FrameRate = a["FRAME-RATE"].raw
			v.Audio = a["AUDIO"].raw
			pending = &v
		case "EXT-X-I-FRAME-STREAM-INF", "EXT-X-SESSION-DATA", "EXT-X-SESSION-KEY", "EXT-X-CONTENT-STEERING", "EXT-X-DEFINE":
		default:
			return nil, fail(fmt.Errorf("unknown tag #%s", tag))
		}
	}
	if pending != nil {
		return nil, fmt.Errorf("EXT-X-STREAM-INF at the end without URI")
	}
	if len(pl.Variants) == 0 {
		return nil, fmt.Errorf("no variants")
	}
	return pl, nil
}
