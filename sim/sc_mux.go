package sim

import (
	"fmt"
	"time"
)

// sequential muxer scenarios: one writer, observation at rest after every write.

type muxSeqOpts struct {
	gen        muxGen
	oracle     func(w *muxWorld)
	query      bool // append a query string to playlist requests
	checkDelta bool // also fetch and check the delta update at every playlist change (Low-Latency)
	onWrite    func(w *muxWorld, cl *writeCall)
	goOn       bool // a Write that returns an error does not end the run: the application keeps writing
}

func runMuxSeq(r *Run, o *muxSeqOpts) {
	cfg := genMuxCfg(r, &o.gen)
	script := genScript(r, cfg, &o.gen)
	w, err := newMuxWorld(r, cfg, script)
	if err != nil {
		r.Tracef("Start rejected the configuration: %v", err)
		r.Probe("start-error")
		return
	}
	w.obs.checkDelta = o.checkDelta
	if o.query && r.T.Chance(1, 3) {
		w.obs.query = Pick(r.T, "token=abc", "a=1&b=2", "x=%20y")
	}
	r.Tracef("config %s calls=%d query=%q", cfg, len(script), w.obs.query)
	for w.next < len(script) && !r.Failed() {
		cl := w.writeNext()
		r.Step()
		if !cl.done {
			r.Fail("write-blocked", "write", "Write call %d did not return", cl.idx)
			break
		}
		r.Sig(fmt.Sprintf("w%d:%d:%d:%d", cl.track.id, cl.pts, len(cl.units), len(cl.units[0].payload)))
		if cl.err != nil {
			r.Tracef("write %d track %d (%s) pts=%d: error %v", cl.idx, cl.track.id, cl.track.kind, cl.pts, cl.err)
			r.Probe("write-error")
			if o.goOn {
				if o.onWrite != nil {
					o.onWrite(w, cl)
				}
				w.obs.observe()
				continue
			}
			w.errCall = cl
			w.next-- // the failed call is not part of the accepted history
			w.script = w.script[:w.next]
			break
		}
		if o.onWrite != nil {
			o.onWrite(w, cl)
		}
		w.obs.observe()
	}
	if !r.Failed() {
		w.obs.checkGone()
		o.oracle(w)
	}
	r.Stats.NonTrivial = w.obs.contentSeen && len(w.obs.streams) > 0 && len(w.obs.streams[0].history) >= 2
	r.Cell("%s tracks=%d disk=%v", cfg.vname, len(cfg.tracks), cfg.disk)
	lt := cfg.leadingTrack()
	r.Cell("%s leading=%s", cfg.vname, lt.kind)
	if len(w.obs.streams) > 0 {
		h := w.obs.streams[0].history
		if len(h) > 0 {
			slid := h[len(h)-1].pl.MediaSequence - h[0].pl.MediaSequence
			b := "0"
			switch {
			case slid >= 50:
				b = "50+"
			case slid >= 10:
				b = "10+"
			case slid >= 1:
				b = "1+"
			}
			r.Cell("%s slid=%s", cfg.vname, b)
		}
	}
	r.Tracef("end: content=%v playlists=%d objects=%d fetches=%d", w.obs.contentSeen,
		func() int {
			n := 0
			for _, s := range w.obs.streams {
				n += len(s.history)
			}
			return n
		}(), len(w.obs.order), w.obs.fetches)
	w.finish()
}

var allVariants = []string{"mpegts", "fmp4", "ll"}

func scC04(r *Run) {
	runMuxSeq(r, &muxSeqOpts{
		gen:        muxGen{variants: allVariants, minCalls: 200, maxCalls: 1500, fastRotation: true, paramChanges: true, negativeStart: true, reorder: true},
		oracle:     func(w *muxWorld) { w.obs.oracleC04(r) },
		checkDelta: true,
	})
}

func scC05(r *Run) {
	runMuxSeq(r, &muxSeqOpts{
		gen:    muxGen{variants: allVariants, minCalls: 100, maxCalls: 600, fastRotation: true, paramChanges: true, negativeStart: true, allowZeroDur: true, reorder: true},
		oracle: func(w *muxWorld) { w.obs.oracleC05(r) },
		query:  true,
	})
}

func init() {
	register(&PropDef{ID: "C04", Quick: 1800, Thorough: 72000, Profiles: []ProfileDef{
		{Name: "seq", Share: 5, Sc: scC04},
		{Name: "cross-burst", Share: 1, Sc: scC04CrossBurst},
	}})
	register(&PropDef{ID: "C05", Quick: 3200, Thorough: 80000, Profiles: []ProfileDef{
		{Name: "seq", Share: 5, Sc: scC05},
		{Name: "held", Share: 1, Sc: scC05Held},
		{Name: "parts-burst", Share: 1, Sc: scMuxBurst("parts")},
		{Name: "go-on", Share: 1, Sc: scC05GoOn},
	}})
}

func scC01(r *Run) {
	runMuxSeq(r, &muxSeqOpts{
		gen: muxGen{variants: allVariants, minCalls: 50, maxCalls: 400, paramChanges: true, negativeStart: true, allowZeroDur: true, reorder: true},
		oracle: func(w *muxWorld) {
			w.obs.reportProblems(r, "grammar", "blocked", "fetch")
			if !r.Failed() {
				w.obs.analyse(r).oracleC01()
			}
		},
	})
}

func scC02(r *Run) {
	runMuxSeq(r, &muxSeqOpts{
		gen: muxGen{variants: allVariants, minCalls: 50, maxCalls: 400, paramChanges: true, negativeStart: true, reorder: true},
		oracle: func(w *muxWorld) {
			w.obs.reportProblems(r, "grammar", "blocked", "fetch")
			if !r.Failed() {
				w.obs.analyse(r).oracleC02()
			}
		},
	})
}

func scC03(r *Run) {
	runMuxSeq(r, &muxSeqOpts{
		gen: muxGen{variants: allVariants, minCalls: 50, maxCalls: 400, paramChanges: true, negativeStart: true, reorder: true},
		oracle: func(w *muxWorld) {
			w.obs.reportProblems(r, "grammar", "blocked", "fetch")
			if !r.Failed() {
				w.obs.analyse(r).oracleC03()
			}
		},
	})
}

func init() {
	register(&PropDef{ID: "C01", Quick: 3000, Thorough: 300000, Profiles: []ProfileDef{{Name: "seq", Share: 1, Sc: scC01}}})
	register(&PropDef{ID: "C02", Quick: 8800, Thorough: 440000, Profiles: []ProfileDef{
		{Name: "seq", Share: 10, Sc: scC02},
		{Name: "init-burst", Share: 1, Sc: scMuxBurst("init")},
	}})
	register(&PropDef{ID: "C03", Quick: 3300, Thorough: 330000, Profiles: []ProfileDef{
		{Name: "seq", Share: 10, Sc: scC03},
		{Name: "target-burst", Share: 1, Sc: scMuxBurst("target")},
	}})
}

func scC16(r *Run) {
	runMuxSeq(r, &muxSeqOpts{
		gen:   muxGen{variants: allVariants, minCalls: 40, maxCalls: 250, paramChanges: true, negativeStart: true, reorder: true},
		query: true,
		oracle: func(w *muxWorld) {
			w.obs.reportProblems(r, "grammar", "blocked", "fetch", "index")
			if !r.Failed() {
				w.obs.analyse(r).oracleC16()
			}
		},
	})
}

func scC19(r *Run) {
	var sd time.Duration
	runMuxSeq(r, &muxSeqOpts{
		gen: muxGen{variants: []string{"ll"}, minCalls: 100, maxCalls: 600, paramChanges: r.T.Chance(1, 3), constLeading: true, singleAUAudio: false},
		oracle: func(w *muxWorld) {
			w.obs.reportProblems(r, "grammar", "blocked")
			if r.Failed() {
				return
			}
			lt := w.cfg.leadingTrack()
			if len(lt.units) >= 2 {
				sd = spanDur(lt.units[1].dts-lt.units[0].dts, lt.clock)
			}
			w.obs.analyse(r).oracleC19(sd)
			r.Cell("c19 lead=%s sd=%v partMin=%v", lt.kind, sd.Round(time.Millisecond), w.cfg.partMin)
		},
	})
}

func init() {
	register(&PropDef{ID: "C16", Quick: 5400, Thorough: 432000, Profiles: []ProfileDef{
		{Name: "seq", Share: 25, Sc: scC16},
		{Name: "index-burst", Share: 2, Sc: scMuxBurst("index")},
	}})
	register(&PropDef{ID: "C19", Quick: 3000, Thorough: 100000, Profiles: []ProfileDef{{Name: "seq", Share: 1, Sc: scC19}}})
}

func scC18(big bool) Scenario {
	return func(r *Run) {
		g := muxGen{variants: allVariants, minCalls: 500, maxCalls: 4000, fastRotation: true}
		if big {
			g = muxGen{variants: allVariants, minCalls: 60, maxCalls: 600, fastRotation: true, bigPayloads: true}
		}
		runMuxSeq(r, &muxSeqOpts{
			gen: g,
			onWrite: func(w *muxWorld, cl *writeCall) {
				w.obs.boundsAtRest(r)
				if w.next%16 == 0 {
					w.obs.checkGone()
				}
			},
			oracle: func(w *muxWorld) {
				w.obs.reportProblems(r, "grammar", "blocked", "fetch", "gone")
				if r.Failed() {
					return
				}
				w.obs.boundsAtRest(r)
				if !r.Failed() {
					w.obs.analyse(r).oracleC18(w.errCall)
				}
				if w.errCall != nil {
					r.Cell("c18 size-error %s", w.cfg.vname)
				}
			},
		})
	}
}

// scC18GoOn: the application keeps writing after Write calls that return an error (a sample beyond SegmentMaxSize,
// a rotation that cannot produce its init section because the stream never carries a PPS): whatever the muxer
// then publishes, the retention bounds hold.
func scC18GoOn(r *Run) {
	g := muxGen{variants: allVariants, minCalls: 100, maxCalls: 900, fastRotation: true, bigPayloads: r.T.Chance(1, 2), forceVideo: true}
	if !g.bigPayloads || r.T.Chance(1, 2) {
		g.noPPS = true
	}
	runMuxSeq(r, &muxSeqOpts{
		gen:  g,
		goOn: true,
		onWrite: func(w *muxWorld, cl *writeCall) {
			w.obs.boundsAtRest(r)
		},
		oracle: func(w *muxWorld) {
			w.obs.reportProblems(r, "grammar", "blocked")
			if !r.Failed() {
				w.obs.boundsAtRest(r)
			}
		},
	})
}

// scC05GoOn: as scC18GoOn, judged by C05's rules: whatever the muxer lists after Write errors (a rotation that
// could not produce its init section) is fetchable.
func scC05GoOn(r *Run) {
	g := muxGen{variants: []string{"fmp4", "ll"}, minCalls: 60, maxCalls: 500, fastRotation: r.T.Chance(1, 2), forceVideo: true, noPPS: true, latePPS: r.T.Chance(1, 2)}
	runMuxSeq(r, &muxSeqOpts{
		gen:  g,
		goOn: true,
		oracle: func(w *muxWorld) {
			w.obs.reportProblems(r, "grammar", "blocked", "fetch", "immutable", "gone")
		},
	})
}

func init() {
	register(&PropDef{ID: "C18", Quick: 600, Thorough: 30000, Profiles: []ProfileDef{
		{Name: "long", Share: 2, Sc: scC18(false)},
		{Name: "size", Share: 2, Sc: scC18(true)},
		{Name: "held", Share: 1, Sc: scC18Held},
		{Name: "go-on", Share: 1, Sc: scC18GoOn},
	}})
}
