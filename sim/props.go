package sim

// ProfileDef is one workload/fault profile of a property.
type ProfileDef struct {
	Name  string
	Share int // share of the run budget
	Sc    Scenario
	Race  bool // run under the race-detector build only
	Sweep int  // >0: runs i*Sweep..(i+1)*Sweep-1 share one scenario seed and sweep SweepPos = 0..Sweep-1 (fault/close position)
}

// PropDef describes how a property is explored.
type PropDef struct {
	ID       string
	Profiles []ProfileDef
	Quick    int // total runs, quick tier
	Thorough int // total runs, thorough tier
}

// Properties is the registry used by the worker and listed to the runner.
var Properties = map[string]*PropDef{}

func register(p *PropDef) { Properties[p.ID] = p }

func init() {
	register(&PropDef{
		ID: "C20", Quick: 20000, Thorough: 2000000,
		Profiles: []ProfileDef{
			{Name: "queue-direct", Share: 10, Sc: scQueueDirect},
		},
	})
}

func init() {
	register(&PropDef{
		ID: "C17", Quick: 20000, Thorough: 2200000,
		Profiles: []ProfileDef{
			{Name: "store", Share: 10, Sc: scStore},
			{Name: "race-store", Share: 1, Sc: scStoreRace, Race: true},
		},
	})
}
