package sim

import (
	"bytes"
	"encoding/binary"
	"fmt"
	"os"
	"path/filepath"
	"strings"
	"time"

	"github.com/bluenviron/mediacommon/v2/pkg/formats/fmp4"
	"github.com/bluenviron/mediacommon/v2/pkg/formats/mpegts"
)

// C13: malformed or unsupported server content cannot crash or wedge the client.

// unsupported codecs mediacommon can place in fMP4 / MPEG-TS and gohlslib has no decoder for
func evilFMP4Codec(T *Tape) (fmp4.Codec, string) {
	switch T.Intn(6) {
	case 0:
		return &fmp4.CodecMPEG1Audio{SampleRate: 48000, ChannelCount: 2}, "mpeg1audio"
	case 1:
		return &fmp4.CodecAC3{SampleRate: 48000, ChannelCount: 2, Fscod: 0, Bsid: 8, Bsmod: 0, Acmod: 2, LfeOn: false, BitRateCode: 7}, "ac3"
	case 2:
		return &fmp4.CodecMJPEG{Width: 640, Height: 480}, "mjpeg"
	case 3:
		return &fmp4.CodecLPCM{LittleEndian: false, BitDepth: 16, SampleRate: 48000, ChannelCount: 2}, "lpcm"
	case 4:
		return &fmp4.CodecMPEG4Video{Config: []byte{0, 0, 1, 0xb0, 1, 0, 0, 1, 0xb5, 0x89, 0x13}}, "mpeg4video"
	default:
		return &fmp4.CodecMPEG1Video{Config: []byte{0, 0, 1, 0xb3, 0x14, 0, 0xf0, 0x13, 0xff, 0xff, 0xe0, 0x18}}, "mpeg1video"
	}
}

// applyEvil turns a well-formed origin into a well-formed-but-unexpected one and re-renders it.
func applyEvil(r *Run, o *stubOrigin, kind string) {
	T := r.T
	for si, st := range o.streams {
		switch kind {
		case "unsupported-codec-extra", "unsupported-codec-only", "unsupported-codec-first":
			if st.container == "fmp4" {
				c, name := evilFMP4Codec(T)
				id := len(st.tracks) + 1
				t := &sTrack{id: id, kind: name, scale: 48000, codec: c, video: c.IsVideo()}
				ref := st.tracks[0]
				for i, u := range ref.units {
					pl := taggedPayload(id, i, 24)
					t.units = append(t.units, &sUnit{dts: u.dts * 48000 / int64(ref.scale), pts: u.dts * 48000 / int64(ref.scale), dur: u.dur * 48000 / int64(ref.scale), key: true, data: [][]byte{pl}, payload: pl, seg: u.seg})
				}
				switch kind {
				case "unsupported-codec-only":
					st.tracks = []*sTrack{t}
					t.id = 1
				case "unsupported-codec-first":
					st.tracks = append([]*sTrack{t}, st.tracks...)
				default:
					st.tracks = append(st.tracks, t)
				}
			} else {
				var tt *mpegts.Track
				name := ""
				switch T.Intn(3) {
				case 0:
					tt, name = &mpegts.Track{Codec: &mpegts.CodecOpus{ChannelCount: 2}}, "opus"
				case 1:
					tt, name = &mpegts.Track{Codec: &mpegts.CodecMPEG1Audio{}}, "mp3"
				default:
					tt, name = &mpegts.Track{Codec: &mpegts.CodecH265{}}, "h265"
				}
				t := &sTrack{id: len(st.tracks) + 1, kind: name, scale: 90000, ts: tt, video: name == "h265"}
				ref := st.tracks[0]
				for i, u := range ref.units {
					var data [][]byte
					switch name {
					case "opus":
						pk, _ := opusPacket(19, t.id, i, 20)
						data = [][]byte{pk}
					case "mp3":
						// MPEG-1 layer 3, 128 kbit/s, 48 kHz: 384 bytes per frame
						fr := make([]byte, 384)
						copy(fr, []byte{0xff, 0xfb, 0x94, 0x00})
						data = [][]byte{fr}
					default:
						p := videoParamVariant("h265", 0)
						data, _ = buildVideoUnit("h265", t.id, i, u.key || !ref.video, p, true, 20)
					}
					t.units = append(t.units, &sUnit{dts: u.dts, pts: u.dts, dur: u.dur, key: true, data: data, seg: u.seg})
				}
				switch kind {
				case "unsupported-codec-only":
					st.tracks = []*sTrack{t}
				case "unsupported-codec-first":
					st.tracks = append([]*sTrack{t}, st.tracks...)
				default:
					st.tracks = append(st.tracks, t)
				}
			}
		case "track-id-permutation":
			if st.container == "fmp4" {
				// init declares other IDs than the fragments use
				for _, t := range st.tracks {
					t.id += Pick(T, 1, 7, 100)
				}
			}
		case "no-leading-data":
			// the leading (first video / first) track has no samples in some or all segments
			li := 0
			for ti, t := range st.tracks {
				if t.video {
					li = ti
					break
				}
			}
			from := T.Intn(len(st.segs))
			for _, u := range st.tracks[li].units {
				if u.seg >= from {
					u.seg = -1
				}
			}
		case "many-tracks":
			if st.container == "fmp4" && si == 0 {
				for len(st.tracks) < 12 {
					ref := st.tracks[len(st.tracks)-1]
					cp := *ref
					cp.id = len(st.tracks) + 1
					st.tracks = append(st.tracks, &cp)
				}
			}
		case "empty-samples":
			// samples of size zero (fMP4 allows them; an encoder may emit them for skipped frames)
			if st.container != "fmp4" {
				break
			}
			for _, t := range st.tracks {
				for _, u := range t.units {
					if T.Chance(1, 6) {
						u.payload, u.data = []byte{}, nil
					}
				}
			}
		case "init-timescale":
			// the init section declares a degenerate timescale for one track (0, 1, the largest value)
			if st.container == "fmp4" && len(st.tracks) > 0 {
				v := uint32(Pick(T, 0, 0, 1, 0xffffffff))
				st.tracks[Pick(T, 0, 0, T.Intn(len(st.tracks)))].initScale = &v
			}
		case "huge-times":
			for _, t := range st.tracks {
				for i, u := range t.units {
					switch T.Intn(12) {
					case 0:
						u.dur = 0
					case 1:
						u.dur = 0xffffffff
					case 2:
						u.dts += int64(1) << uint(T.Range(20, 50))
						u.pts = u.dts
					case 3:
						u.pts = u.dts + int64(T.Range(-2000000000, 2000000000))
					}
					_ = i
				}
			}
		case "empty-fragments":
			// many fragments per segment, so that some fragments have no unit of the sparser track(s): their
			// traf is kept, with an empty trun
			if st.container == "fmp4" {
				st.emptyTrafs = true
				for _, sg := range st.segs {
					sg.frags = Pick(T, 6, 12, 20)
				}
				if T.Chance(1, 2) && len(st.tracks) > 0 {
					// the last fragment-worth of units of a track is removed from one segment
					t := st.tracks[T.Intn(len(st.tracks))]
					k := T.Intn(len(st.segs))
					n := 0
					for _, u := range t.units {
						if u.seg == k {
							n++
							if n%3 == 0 {
								u.seg = -1
							}
						}
					}
				}
			}
		case "unsupported-rendition":
			// an audio rendition (a playlist of its own) whose only track has a codec the client does not support
			if si > 0 && st.container == "fmp4" && len(st.tracks) > 0 {
				c, name := evilFMP4Codec(T)
				for c.IsVideo() {
					c, name = evilFMP4Codec(T)
				}
				t := st.tracks[0]
				t.codec, t.kind, t.supported = c, name, false
				st.tracks = st.tracks[:1]
			}
		case "gap-tags":
			// EXT-X-GAP on some segments (the last one included): the resource is still served
			for i, sg := range st.segs {
				if T.Chance(1, 4) || i == len(st.segs)-1 {
					sg.gapTag = true
				}
			}
		case "rendition-two-tracks":
			if si > 0 && st.container == "fmp4" && len(st.tracks) == 1 {
				cp := *st.tracks[0]
				cp.id = 2
				st.tracks = append(st.tracks, &cp)
			}
		case "mixed-containers":
			if si > 0 && st.container == "fmp4" {
				// a rendition in MPEG-TS next to an fMP4 leading stream (and the other way round)
				ok := true
				for _, t := range st.tracks {
					if t.kind != "aac" {
						ok = false
					}
				}
				if ok {
					st.container = "ts"
					for _, t := range st.tracks {
						for _, u := range t.units {
							u.dts = u.dts * 90000 / int64(t.scale)
							u.pts = u.dts
						}
						t.scale = 90000
					}
				}
			}
		}
		// segment index
		for _, sg := range st.segs {
			sg.first = make([]int, len(st.tracks))
			sg.count = make([]int, len(st.tracks))
			for ti, t := range st.tracks {
				f, c := -1, 0
				for ui, u := range t.units {
					if u.seg == sg.idx {
						if f < 0 {
							f = ui
						}
						c++
					}
				}
				if f < 0 {
					f = 0
				}
				sg.first[ti], sg.count[ti] = f, c
			}
		}
		// re-render
		st.blobs = map[string][]byte{}
		seq := uint32(1)
		if st.container == "fmp4" {
			st.init = renderInit(st)
			if st.initURI == "" {
				st.initURI = st.name + "_init.mp4"
			}
			if kind == "track-id-permutation" {
				for _, t := range st.tracks {
					t.id = 1 + T.Intn(3)
				}
			}
			for _, sg := range st.segs {
				sg.body = renderFMP4Segment(st, sg, &seq)
				if len(sg.body) == 0 {
					// an fMP4 segment without any fragment: serve an empty styp-less body
					sg.body = []byte{}
				}
			}
		} else {
			st.initURI = ""
			renderTSStream(st)
		}
		for _, sg := range st.segs {
			if sg.hasBR {
				sg.brStart = uint64(len(st.blobs[sg.uri]))
				sg.brLen = uint64(len(sg.body))
				st.blobs[sg.uri] = append(st.blobs[sg.uri], sg.body...)
			}
		}
	}
	if o.multi {
		o.multiRaw = o.multivariant()
		if kind == "audio-group-missing" {
			// the variant names an AUDIO group that no EXT-X-MEDIA defines
			var keep []string
			for _, l := range strings.Split(string(o.multiRaw), "\n") {
				if !strings.HasPrefix(l, "#EXT-X-MEDIA:") {
					keep = append(keep, l)
				}
			}
			o.multiRaw = []byte(strings.Replace(strings.Join(keep, "\n"), "CODECS=", "AUDIO=\"aud\",CODECS=", 1))
			o.multiRaw = []byte(strings.Replace(string(o.multiRaw), ",AUDIO=\"aud\"\n", "\n", 1))
		}
	}
}

// box boundaries of an ISO BMFF buffer (top level and inside moof/traf/moov/trak/mdia/minf/stbl)
func boxOffsets(b []byte, base int, depth int, out *[]int) {
	for off := 0; off+8 <= len(b); {
		sz := int(binary.BigEndian.Uint32(b[off:]))
		typ := string(b[off+4 : off+8])
		if sz < 8 || off+sz > len(b) {
			return
		}
		*out = append(*out, base+off, base+off+8)
		switch typ {
		case "moof", "traf", "moov", "trak", "mdia", "minf", "stbl", "mvex":
			if depth < 6 {
				boxOffsets(b[off+8:off+sz], base+off+8, depth+1, out)
			}
		}
		off += sz
	}
	*out = append(*out, base+len(b))
}

var corpusCache [][]byte

func playlistCorpus() [][]byte {
	if corpusCache != nil {
		return corpusCache
	}
	dir := os.Getenv("VERIF_REPO_DIR")
	if dir == "" {
		dir = "/repo"
	}
	files, _ := filepath.Glob(filepath.Join(dir, "pkg/playlist/testdata/fuzz/*/*"))
	for _, f := range files {
		b, err := os.ReadFile(f)
		if err != nil {
			continue
		}
		// go test fuzz v1 format: string("...") / []byte("...")
		s := string(b)
		i := strings.Index(s, "(\"")
		j := strings.LastIndex(s, "\")")
		if i < 0 || j <= i {
			continue
		}
		var un string
		if _, err := fmt.Sscanf("\""+s[i+2:j]+"\"", "%q", &un); err == nil {
			corpusCache = append(corpusCache, []byte(un))
		}
	}
	if corpusCache == nil {
		corpusCache = [][]byte{[]byte("#EXTM3U\n#EXT-X-BYTERANGE:0")}
	}
	return corpusCache
}

// damage mutates a response body at the byte level.
func damage(T *Tape, path string, body []byte) []byte {
	b := append([]byte(nil), body...)
	isPlaylist := strings.Contains(path, ".m3u8")
	if isPlaylist {
		lines := strings.Split(string(b), "\n")
		switch Pick(T, 0, 0, 0, 1, 2, 3, 4, 5, 6, 7) {
		case 0: // lose a line, or every line of one kind of tag (a playlist that parses but lacks what the client relies on)
			if len(lines) > 1 && T.Chance(1, 2) {
				i := T.Intn(len(lines))
				lines = append(lines[:i], lines[i+1:]...)
			} else {
				tagOf := func(l string) string {
					if !strings.HasPrefix(l, "#EXT") {
						return ""
					}
					if i := strings.IndexByte(l, ':'); i >= 0 {
						return l[:i]
					}
					return l
				}
				var kinds []string
				seen := map[string]bool{}
				for _, l := range lines {
					if t := tagOf(l); t != "" && t != "#EXTM3U" && !seen[t] {
						seen[t] = true
						kinds = append(kinds, t)
					}
				}
				if len(kinds) > 0 {
					victim := kinds[T.Intn(len(kinds))]
					var kept []string
					for _, l := range lines {
						if tagOf(l) != victim {
							kept = append(kept, l)
						}
					}
					lines = kept
				}
			}
		case 1: // duplicate a line
			i := T.Intn(len(lines))
			lines = append(lines[:i+1], lines[i:]...)
		case 2: // swap two lines
			i, j := T.Intn(len(lines)), T.Intn(len(lines))
			lines[i], lines[j] = lines[j], lines[i]
		case 3: // truncate
			return b[:T.Intn(len(b)+1)]
		case 4: // splice a corpus entry
			c := playlistCorpus()
			e := c[T.Intn(len(c))]
			i := T.Intn(len(lines))
			lines = append(lines[:i], append(strings.Split(string(e), "\n"), lines[i:]...)...)
		case 5: // replace by a corpus entry
			c := playlistCorpus()
			return append([]byte(nil), c[T.Intn(len(c))]...)
		case 6: // numeric damage
			s := string(b)
			for _, tag := range []string{"#EXTINF:", "#EXT-X-TARGETDURATION:", "#EXT-X-MEDIA-SEQUENCE:", "#EXT-X-BYTERANGE:", "BANDWIDTH="} {
				if i := strings.Index(s, tag); i >= 0 && T.Chance(1, 2) {
					s = s[:i+len(tag)] + Pick(T, "0", "-1", "99999999999999999999", "1e9", "NaN", "", "18446744073709551615") + s[i+len(tag):]
				}
			}
			return []byte(s)
		default: // flip bytes
			for k := T.Range(1, 6); k > 0 && len(b) > 0; k-- {
				b[T.Intn(len(b))] ^= byte(1 << uint(T.Intn(8)))
			}
			return b
		}
		return []byte(strings.Join(lines, "\n"))
	}
	if len(b) == 0 {
		return b
	}
	switch T.Intn(6) {
	case 0: // truncate at a box / packet boundary
		var offs []int
		if strings.HasSuffix(stripQuery(path), ".ts") {
			for o := 0; o <= len(b); o += 188 {
				offs = append(offs, o)
			}
		} else {
			boxOffsets(b, 0, 0, &offs)
		}
		if len(offs) > 0 {
			return b[:offs[T.Intn(len(offs))]]
		}
		return b[:len(b)/2]
	case 1: // truncate anywhere
		return b[:T.Intn(len(b)+1)]
	case 2: // empty
		return nil
	case 3: // flips in the payload half (mdat / PES payloads): headers keep their sizes
		for k := T.Range(1, 8); k > 0; k-- {
			i := len(b)/2 + T.Intn(len(b)-len(b)/2)
			b[i] ^= byte(1 << uint(T.Intn(8)))
		}
		return b
	case 4: // duplicate the body (two sets of fragments / packets)
		return append(b, body...)
	default: // cut a hole
		i := T.Intn(len(b))
		j := i + T.Intn(len(b)-i+1)
		return append(b[:i:i], b[j:]...)
	}
}

func scC13(spot bool) Scenario {
	return func(r *Run) {
		T := r.T
		g := &originGen{containers: []string{"ts", "fmp4", "fmp4"}, modes: []string{"vod", "event"}, minSegs: 3, maxSegs: 6,
			renditions: true, byteRanges: true, bframes: true, multiFrag: true, segDurMs: []int{400, 1000, 2000}, noPDTChance: 5}
		o := genStubOrigin(r, g)
		for _, st := range o.streams {
			if st.mode != "vod" {
				st.endAfter = len(st.segs)
			}
		}
		evil := "none"
		if !spot || T.Chance(1, 3) {
			evil = Pick(T, "unsupported-codec-extra", "unsupported-codec-extra", "unsupported-codec-only", "unsupported-codec-first",
				"track-id-permutation", "no-leading-data", "many-tracks", "huge-times", "mixed-containers", "rendition-two-tracks", "audio-group-missing", "empty-fragments", "empty-fragments", "init-timescale", "empty-samples", "unsupported-rendition", "gap-tags")
			applyEvil(r, o, evil)
		}
		// byte-level damage at chosen request positions
		var spots map[int]bool
		if spot {
			spots = map[int]bool{}
			for k := T.Range(1, 3); k > 0; k-- {
				spots[T.Range(0, 25)] = true
			}
		}
		lat := Pick(T, 0, 20, 200)
		fate := func(nr *netReq) *netFate {
			f := &netFate{latency: time.Duration(T.Range(0, lat)) * time.Millisecond, back: time.Duration(T.Range(0, lat)) * time.Millisecond}
			if spots[nr.id] {
				f.fault = "mutate"
				f.mutation = func(path string, body []byte) []byte { return damage(T, path, body) }
				r.FaultConf("mutate")
			}
			return f
		}
		w := newCliWorld(r, o, o.primaryURL(), fate)
		total := time.Duration(len(o.streams[0].segs)) * o.streams[0].segs[0].dur
		w.limit = 3*total + 60*time.Second
		w.afterWait = time.Second
		r.Tracef("origin container=%s mode=%s streams=%d tracks0=%d segs=%d evil=%s spots=%v", o.streams[0].container, o.streams[0].mode,
			len(o.streams), len(o.streams[0].tracks), len(o.streams[0].segs), evil, len(spots))
		w.run()
		r.Tracef("end: wait=%v err=%s requests=%d tracks=%d decodeErrs=%d", w.waitSeen, describeErr(w.waitErr), len(w.net.log), len(w.tracks), len(w.decodeErrs))
		r.Cell("c13 evil=%s %s", evil, o.streams[0].container)
		outcome := "error"
		if !w.waitSeen {
			// neither an error nor the end of the stream: acceptable only while the client is pacing samples
			pacing := false
			for _, g := range clientGoroutines() {
				if bytes.Contains([]byte(g), []byte("handleData")) || bytes.Contains([]byte(g), []byte("verifsim.(*Run).Hook")) {
					pacing = true
				}
			}
			pendingNet := false
			for _, nr := range w.net.log {
				if !nr.delivered && !nr.cancelled {
					pendingNet = true
				}
			}
			if !pacing && !pendingNet {
				first := ""
				if gs := clientGoroutines(); len(gs) > 0 {
					first = gs[0]
				}
				r.Fail("wedge", "silent-stall-"+evil, "the client neither delivered to the end, nor reported an error, nor is it pacing samples: it is wedged after %d requests (evil=%s); one of its goroutines:\n%s", len(w.net.log), evil, first)
				w.finish()
				return
			}
			outcome = "still-playing"
		} else if describeErr(w.waitErr) == "EOS" {
			outcome = "eos"
		}
		r.Cell("c13 outcome=%s", outcome)
		// it still honours Close
		w.closeClient()
		for i := 0; i < 3; i++ {
			syncWait()
			w.net.pump()
		}
		r.SettleHolds()
		syncWait()
		if !w.waitSeen {
			r.Fail("close", "not-honoured", "after Close, Wait yielded nothing (evil=%s)", evil)
		} else if gs := clientGoroutines(); len(gs) > 0 {
			r.Fail("close", "goroutine-leak", "after Close and Wait, %d client goroutine(s) remain; first:\n%s", len(gs), gs[0])
		}
		r.Stats.NonTrivial = evil != "none" || len(spots) > 0
		w.finish()
	}
}

func init() {
	register(&PropDef{ID: "C13", Quick: 8000, Thorough: 400000, Profiles: []ProfileDef{
		{Name: "twin", Share: 1, Sc: scC13(false)},
		{Name: "spot", Share: 2, Sc: scC13(true)},
		{Name: "muxer-spot", Share: 1, Sc: scC13Muxer},
	}})
}
