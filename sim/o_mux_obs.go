package sim

import (
	"bytes"
	"fmt"
	"os"
	"regexp"
	"strconv"
	"strings"

	"github.com/bluenviron/mediacommon/v2/pkg/formats/fmp4"
)

// Observation of a muxer through Muxer.Handle only: playlists after every writer
// step, every URI when first listed, again whenever the playlist changes, and once
// more after it left the window.

type plSnap struct {
	afterCall int
	step      int
	raw       []byte
	pl        *mediaPL
}

type tsSample struct {
	track int // index in PMT order
	codec string
	pts   int64
	dts   int64
	data  [][]byte
}

type mediaObj struct {
	uri       string // without query
	kind      string // init | segment | part
	stream    *streamObs
	firstCall int
	body      []byte
	ctype     string
	// decoded
	parts    fmp4.Parts
	init     *fmp4.Init
	ts       []tsSample
	tsTracks []string
	patFirst bool
	decErr   error
	num      int      // number embedded in the URI (segment: msn; part: part number)
	msn      int      // segments: media sequence number when first listed
	goneAt   int      // call index at which it was seen to have left the window (-1 = still listed)
	inits    [][]byte // init objects: every distinct body seen, in order
	initAt   []int    // call index at which each distinct body was first seen
}

type streamObs struct {
	uri       string
	isVariant bool // the variant's (leading stream's) playlist
	history   []*plSnap
	listed    map[string]bool // URIs in the latest snapshot
}

type multiSnap struct {
	afterCall int
	raw       []byte
	pl        *multiPL
	query     string
}

type problem struct {
	class string // grammar | fetch | immutable | gone | blocked | decode
	key   string
	msg   string
}

type muxObs struct {
	w                  *muxWorld
	firstIndexCompared bool
	indexReq           *httpResp
	contentSeen        bool
	contentAt          int
	multi              []*multiSnap
	streams            []*streamObs
	objects            map[string]*mediaObj
	order              []*mediaObj // in first-listed order
	problems           []problem
	refetchAll         bool
	checkDelta         bool
	changeCtr          int
	fetches            int
	query              string // query string appended to playlist requests ("" or "k=v")
}

func newMuxObs(w *muxWorld) *muxObs {
	return &muxObs{w: w, objects: map[string]*mediaObj{}}
}

func (o *muxObs) problem(class, key, format string, a ...any) {
	o.problems = append(o.problems, problem{class, key, fmt.Sprintf(format, a...)})
}

func stripQuery(u string) string {
	if i := strings.IndexByte(u, '?'); i >= 0 {
		return u[:i]
	}
	return u
}

var numRe = regexp.MustCompile(`(\d+)\.[A-Za-z0-9]+$`)

func uriNumber(u string) int {
	m := numRe.FindStringSubmatch(stripQuery(u))
	if m == nil {
		return -1
	}
	n, err := strconv.Atoi(m[1])
	if err != nil {
		return -1
	}
	return n
}

func (o *muxObs) withQuery(u string) string {
	if o.query == "" {
		return u
	}
	return u + "?" + o.query
}

// observe is called at rest after every writer step.
var bandwidthRe = regexp.MustCompile(`(AVERAGE-)?BANDWIDTH=\d+,?`)

func (o *muxObs) observe() {
	w := o.w
	if !o.contentSeen {
		if o.indexReq == nil {
			o.indexReq = w.get("index.m3u8")
		}
		w.poll()
		if !o.indexReq.isDone() {
			return
		}
		o.contentSeen = true
		o.contentAt = w.progress()
		if o.indexReq.effStatus() != 200 {
			o.problem("fetch", "index", "first multivariant playlist request returned %d", o.indexReq.effStatus())
			return
		}
	}
	// multivariant
	idx := w.get(o.withQuery("index.m3u8"))
	if !idx.isDone() {
		o.problem("blocked", "index", "multivariant playlist request blocked although content is available")
		return
	}
	if idx.effStatus() != 200 || idx.ctype() != "application/vnd.apple.mpegurl" {
		o.problem("fetch", "index", "multivariant playlist: status %d content type %q", idx.effStatus(), idx.ctype())
		return
	}
	// the request that was waiting for the first content is answered at the same rest point: it describes the same
	// state as a request issued now
	if o.indexReq != nil && !o.firstIndexCompared {
		o.firstIndexCompared = true
		// (a Write call may rotate more than once; the waiting request is answered after the first of these rotations or
		// after a later one, so the bandwidth figures, which every rotation updates, are left out of the comparison)
		if o.query == "" && !bytes.Equal(bandwidthRe.ReplaceAll(o.indexReq.body, nil), bandwidthRe.ReplaceAll(idx.body, nil)) {
			o.problem("index", "blocked-request-stale", "the multivariant request that waited for the first content was answered with\n%s\nwhile a request issued at the same moment gets\n%s", o.indexReq.body, idx.body)
			return
		}
		o.w.r.Probe("first-index-compared")
	}
	if len(o.multi) == 0 || !bytes.Equal(o.multi[len(o.multi)-1].raw, idx.body) {
		mp, err := parseMultivariant(idx.body)
		if err != nil {
			o.problem("grammar", "index", "multivariant playlist is not grammatical: %v\n%s", err, idx.body)
			return
		}
		o.multi = append(o.multi, &multiSnap{afterCall: w.progress(), raw: idx.body, pl: mp, query: o.query})
		if len(o.streams) == 0 {
			// discover the streams from the playlist itself
			for _, v := range mp.Variants {
				o.streams = append(o.streams, &streamObs{uri: stripQuery(v.URI), isVariant: true, listed: map[string]bool{}})
			}
			for _, rd := range mp.Renditions {
				if rd.HasURI {
					dup := false
					for _, s := range o.streams {
						if s.uri == stripQuery(rd.URI) {
							dup = true
						}
					}
					if !dup {
						o.streams = append(o.streams, &streamObs{uri: stripQuery(rd.URI), listed: map[string]bool{}})
					}
				}
			}
		}
	}
	for _, s := range o.streams {
		o.observeStream(s)
	}
}

func (o *muxObs) observeStream(s *streamObs) {
	w := o.w
	resp := w.get(o.withQuery(s.uri))
	if !resp.isDone() {
		o.problem("blocked", "media-playlist", "media playlist %s blocked although content is available", s.uri)
		return
	}
	if resp.effStatus() != 200 || resp.ctype() != "application/vnd.apple.mpegurl" {
		o.problem("fetch", "media-playlist", "media playlist %s: status %d content type %q", s.uri, resp.effStatus(), resp.ctype())
		return
	}
	if len(s.history) > 0 && bytes.Equal(s.history[len(s.history)-1].raw, resp.body) {
		return
	}
	pl, err := parseMediaPlaylist(resp.body)
	if err != nil {
		o.problem("grammar", "media-playlist", "media playlist %s is not grammatical: %v\n%s", s.uri, err, resp.body)
		return
	}
	snap := &plSnap{afterCall: w.progress(), step: w.r.Stats.Steps, raw: resp.body, pl: pl}
	s.history = append(s.history, snap)
	if o.checkDelta && pl.HasCanSkip {
		// the delta update of the same rest point must satisfy the same single-playlist rules
		d := w.get(s.uri + "?_HLS_skip=YES")
		if d.isDone() && d.effStatus() == 200 {
			if dp, err := parseMediaPlaylist(d.body); err != nil {
				o.problem("grammar", "delta", "delta update of %s is not grammatical: %v\n%s", s.uri, err, d.body)
			} else if err := singlePlaylistInvariants(dp, w.cfg); err != nil {
				o.problem("delta", "single-playlist-invariant", "delta update of %s after call %d: %v\n%s", s.uri, w.progress(), err, d.body)
			} else {
				w.r.Probe("delta-invariants-checked")
			}
		}
	}

	// URIs listed now
	now := map[string]bool{}
	type ent struct {
		uri, kind string
		msn       int
	}
	var ents []ent
	if pl.HasMap {
		ents = append(ents, ent{pl.MapURI, "init", -1})
	}
	for i, seg := range pl.Segments {
		msn := pl.MediaSequence + pl.Skipped + i
		if !seg.Gap {
			ents = append(ents, ent{seg.URI, "segment", msn})
		}
		for _, p := range seg.Parts {
			ents = append(ents, ent{p.URI, "part", msn})
		}
	}
	for _, p := range pl.TrailingParts {
		ents = append(ents, ent{p.URI, "part", pl.MediaSequence + pl.Skipped + len(pl.Segments)})
	}
	for _, e := range ents {
		key := stripQuery(e.uri)
		now[key] = true
		obj := o.objects[key]
		if obj == nil {
			obj = &mediaObj{uri: key, kind: e.kind, stream: s, firstCall: w.progress(), num: uriNumber(key), msn: e.msn, goneAt: -1}
			o.objects[key] = obj
			o.order = append(o.order, obj)
			o.fetchObject(obj, e.uri, true)
		} else {
			obj.goneAt = -1
			// the playlist changed: what is still listed must still return the same bytes. The oldest
			// segment (about to leave) and init are re-fetched at every change, the rest in rotation.
			o.changeCtr++
			if o.refetchAll || e.kind == "init" || e.msn == pl.MediaSequence+pl.Skipped || (o.changeCtr+obj.num)%5 == 0 {
				o.fetchObject(obj, e.uri, false)
			}
		}
	}
	s.listed = now
}

func (o *muxObs) fetchObject(obj *mediaObj, uri string, first bool) {
	w := o.w
	o.fetches++
	resp := w.get(uri)
	if !resp.isDone() {
		o.problem("blocked", obj.kind, "%s %s: request blocked although the URI is listed", obj.kind, obj.uri)
		return
	}
	wantCT := "video/mp4"
	if strings.HasSuffix(obj.uri, ".ts") {
		wantCT = "video/MP2T"
	}
	if resp.status == 0 {
		o.problem("fetch", obj.kind+"-no-handler", "%s %s is listed but no handler answered the request (a server would send an empty 200)", obj.kind, obj.uri)
		return
	}
	if resp.effStatus() != 200 {
		o.problem("fetch", obj.kind, "%s %s is listed but returned status %d", obj.kind, obj.uri, resp.effStatus())
		return
	}
	if resp.ctype() != wantCT {
		o.problem("fetch", obj.kind+"-ctype", "%s %s: content type %q, want %q", obj.kind, obj.uri, resp.ctype(), wantCT)
	}
	if obj.kind == "init" {
		// the init segment may legitimately change when codec parameters change
		if len(obj.inits) == 0 || !bytes.Equal(obj.inits[len(obj.inits)-1], resp.body) {
			obj.inits = append(obj.inits, resp.body)
			obj.initAt = append(obj.initAt, w.progress())
		}
		obj.body = resp.body
		return
	}
	if first {
		obj.body = resp.body
		obj.ctype = resp.ctype()
		o.decode(obj)
		return
	}
	if !bytes.Equal(obj.body, resp.body) {
		o.problem("immutable", obj.kind, "%s %s returned different bytes while still listed (first %d bytes, now %d bytes)",
			obj.kind, obj.uri, len(obj.body), len(resp.body))
	}
}

// checkGone fetches every segment/part URI whose segment has left the window once more:
// it must not return media bytes any longer.
func (o *muxObs) checkGone() {
	for _, obj := range o.order {
		if obj.kind == "init" || obj.goneAt == -2 || obj.msn < 0 {
			continue
		}
		if obj.msn >= obj.stream.latestMSN() {
			continue
		}
		resp := o.w.get(obj.uri)
		if !resp.isDone() {
			o.problem("blocked", "gone-"+obj.kind, "request for expired %s %s blocked", obj.kind, obj.uri)
			continue
		}
		if resp.effStatus() == 200 && len(resp.body) > 0 {
			o.problem("gone", obj.kind, "%s %s (media sequence %d) left the window (head is now %d) but still returns %d bytes with status 200",
				obj.kind, obj.uri, obj.msn, obj.stream.latestMSN(), len(resp.body))
		}
		o.w.r.Probe("expired-uri-checked")
		obj.goneAt = -2 // checked
	}
}

func (o *muxObs) decode(obj *mediaObj) {
	if strings.HasSuffix(obj.uri, ".ts") {
		obj.ts, obj.tsTracks, obj.patFirst, obj.decErr = decodeTS(obj.body)
		if d := os.Getenv("VERIF_DUMP"); d != "" && obj.decErr != nil {
			os.WriteFile(d+"/"+obj.uri, obj.body, 0o644)
		}
		return
	}
	var parts fmp4.Parts
	if err := parts.Unmarshal(obj.body); err != nil {
		obj.decErr = err
		return
	}
	obj.parts = parts
}

func decodeInit(b []byte) (*fmp4.Init, error) {
	var in fmp4.Init
	if err := in.Unmarshal(bytes.NewReader(b)); err != nil {
		return nil, err
	}
	return &in, nil
}
