"""Per-property metadata used by check.py for evidence files."""

REAL_ALL = ["gohlslib (whole module, built from the working tree with -tags verif)", "mediacommon v2.1.0", "go-astits",
            "Go runtime scheduler for goroutines runnable inside one step"]
COMMON_ASSUME = [
    "Go 1.26.8 runtime and testing/synctest (fake clock, quiescence detection) are trusted",
    "preemption is explored at guarded yield hooks and at blocking operations only",
    "sampling, not proof: a clean batch is evidence in proportion to the coverage counters",
]

META = {
    "C20": {
        "level": "exploration",
        "rule": "each run draws, from one seeded tape, an armed subset of the three queue yield hooks, an operation budget and "
                "a schedule of producer push / waitUntilSizeIsBelow(n), consumer pull, hook resumptions and cancellation; "
                "a run is non-trivial when at least two queue operations were issued; distinct = distinct scheduler "
                "decision/observation signatures. End-to-end profile: real Client against a stub origin with drawn latencies.",
        "real": ["gohlslib clientSegmentQueue (through the guarded VerifSegmentQueue accessor)", "porcupine v1.3.0 checker",
                 "end-to-end profile: the whole gohlslib Client and net/http.Client above the transport"],
        "stub": ["producer/consumer are harness tasks (direct tier)", "transport and origin server (end-to-end tier)", "clock (synctest)"],
        "assumptions": COMMON_ASSUME + ["porcupine results of kind Unknown are counted, never reported"],
    },
    "C17": {
        "level": "exploration",
        "rule": "each run draws an operation history over one RAM-backed and one disk-backed file in lock-step (NewPart, Write, "
                "Seek start/current, rewrite, snapshot read of the open part, Finalize, part/file reader open, Read with buffer "
                "sizes 0..64k as separately scheduled operations, Size, Remove, reads after Remove) and compares every result "
                "with a byte-slice model; non-trivial = at least one part with data and at least one read; distinct = distinct "
                "operation/observation signatures",
        "real": ["gohlslib pkg/storage RAM and disk back ends", "the real file system (fresh temp directory per run)"],
        "stub": ["none (no disk faults are injected: the storage API has no error channel to check them against)"],
        "assumptions": COMMON_ASSUME + [
            "Writer() is obtained once per part and parts are written only while they are the newest part (what the muxer does)",
            "seeks stay within [0, len] of the part",
        ],
    },
}

LEVEL_TEXT = {
    "C20": "Seeded exploration of producer/consumer/cancel interleavings of the real queue at its three synchronisation points, "
           "checked with a lost-wake-up invariant at every rest point, porcupine linearizability against a FIFO model and an "
           "exactly-once drain; plus end-to-end look-ahead bound on the real client. Sampling of schedules, not enumeration.",
    "C17": "Seeded exploration of storage operation histories on the real RAM and disk back ends against a byte-slice model "
           "(every read checked, readers kept alive across Finalize and Remove). Sampling of histories.",
}

PENDING = "check not built yet in this session (planned, see DESIGN.md section 5); not claimed until it runs"
NOT_APPLICABLE = {
    "C14": "pure function of its input value (Marshal/Unmarshal round trip): no schedule, clock, I/O, fault or history for a "
           "simulator to control; deciding it is property-based testing, a different technique family",
    "C15": "quantifies over all byte strings / playlist values (fuzzing of a pure decoder); only its 'every playlist a muxer "
           "serves is grammatical' clause is exercised as a side effect of the strict M3U8 reader used by the muxer checks, "
           "which is not enough to claim it",
}
for _i in range(1, 21):
    _id = "C%02d" % _i
    if _id not in META and _id not in NOT_APPLICABLE:
        NOT_APPLICABLE[_id] = PENDING

MUX_REAL = ["gohlslib Muxer (segmenter, streams, parts, server, pkg/storage RAM or real files, pkg/playlist encoder)",
            "mediacommon fmp4/mpegts writers inside the muxer; mediacommon fmp4.Parts / mpegts.Reader as decoders in the oracle"]
MUX_STUB = ["HTTP server side: Muxer.Handle is called directly with an in-memory ResponseWriter (no net/http.Server, no sockets)",
            "wall clock of the muxer: the ntp argument chosen by the generator", "access units: minimal synthetic bitstreams"]
MUX_ASSUME = COMMON_ASSUME + [
    "mediacommon decoders are shared with the library: a defect that cancels out on both sides is invisible",
    "playlists are read with the harness's own strict M3U8 reader, never with pkg/playlist",
    "muxer inputs: no B-frame reordering (PTS = DTS), ClockRate equal to the codec's natural timescale",
]
MUX_RULE = ("each run draws a muxer configuration (variant, track set and order, codecs, SegmentCount, SegmentMinDuration, "
            "PartMinDuration, RAM or Directory) and a write script (per-track timelines, key-frame placement, parameter changes, "
            "cross-track interleaving, NTP values) from one seeded tape; after every Write the harness observes the muxer through "
            "Handle at rest. Non-trivial = content became available and the playlist changed at least once; distinct = distinct "
            "signatures of configuration + write script + scheduler decisions. ")

META["C04"] = {"level": "exploration", "rule": MUX_RULE + "C04 profile: 200-1500 writes with a rotation every few writes so the window slides many times.",
               "real": MUX_REAL, "stub": MUX_STUB, "assumptions": MUX_ASSUME}
META["C05"] = {"level": "exploration", "rule": MUX_RULE + "C05 profile: every listed URI fetched when first listed, at every playlist change while listed, and after leaving the window; unknown URIs probed.",
               "real": MUX_REAL, "stub": MUX_STUB, "assumptions": MUX_ASSUME}
LEVEL_TEXT["C04"] = ("Seeded exploration of long write histories; every consecutive pair of playlists of every stream is checked "
                     "against the RFC 8216 evolution rules and all streams are compared at every rest point. Sampling of histories.")
LEVEL_TEXT["C05"] = ("Seeded exploration of write histories on RAM and disk storage; every advertised URI is fetched when first and "
                     "while listed (byte identity), parts are compared with their segment, expired and unknown URIs are probed. Sampling.")
for _k in list(NOT_APPLICABLE):
    if _k in META:
        del NOT_APPLICABLE[_k]

for _id, _extra, _lt in [
    ("C01", "C01 profile: 50-400 writes; every listed segment/part decoded once and matched unit by unit (bytes, order, start, end, timestamps, base times) against the write script.",
     "Seeded exploration of configurations and write scripts; every decoded sample is attributed to exactly one written unit and compared with the harness's own record. Sampling of inputs."),
    ("C02", "C02 profile: key-frame spacing biased to sit on/around SegmentMinDuration, parameter changes on and off key frames; cut positions recomputed relationally from the write script.",
     "Seeded exploration; the cut rule is re-derived from the statement over the written units and compared with the observed segment boundaries of every stream; init segments are decoded at every change. Sampling."),
    ("C03", "C03 profile: arbitrary frame durations and NTP values incl. jitter, jumps and drift; every playlist of the history checked against unit spans and decoded fragments.",
     "Seeded exploration; every EXTINF, part DURATION, PROGRAM-DATE-TIME and target value of every playlist in the history is compared with the written timestamps. Sampling."),
]:
    META[_id] = {"level": "exploration", "rule": MUX_RULE + _extra, "real": MUX_REAL, "stub": MUX_STUB, "assumptions": MUX_ASSUME}
    LEVEL_TEXT[_id] = _lt
    NOT_APPLICABLE.pop(_id, None)

for _id, _extra, _lt in [
    ("C16", "C16 profile: every track list Start accepts (orders, 0-1 video, 0-3 audio, every codec, names/languages/default flags), index.m3u8 fetched with and without a query string after every write incl. after parameter changes; codec strings from an own RFC 6381 formatter.",
     "Seeded exploration of track lists and write histories; every multivariant playlist of the history is compared with the track list, the current parameter sets and the bit rate recomputed from the fetched segments. Sampling."),
    ("C18", "C18 profile: 300-3000 writes with a rotation almost every key frame, SegmentMaxSize 300..100000 with payload sizes straddling it; bounds checked after every write (listed segments, files in Directory, expired URIs), payload totals per published segment at the end.",
     "Seeded exploration of long histories; retention bounds are evaluated at every rest point and the size bound on every decoded segment. Sampling."),
    ("C19", "C19 profile: Low-Latency only, leading track with a constant sample duration (video 1..120 fps incl. 29.97, AAC at all standard rates, Opus frame sizes), PartMinDuration 50 ms..2 s on and off the 5 ms grid.",
     "Seeded exploration of (sample duration, PartMinDuration, SegmentMinDuration, key-frame spacing); every playlist's parts are checked against the statement's numeric bounds. Sampling."),
]:
    META[_id] = {"level": "exploration", "rule": MUX_RULE + _extra, "real": MUX_REAL, "stub": MUX_STUB, "assumptions": MUX_ASSUME}
    LEVEL_TEXT[_id] = _lt
    NOT_APPLICABLE.pop(_id, None)

META["C07"] = {"level": "exploration",
   "rule": "each run draws a muxer configuration, a write script, the number of writes before Close (0 = before data), up to 10 concurrent requests of every blocking and non-blocking kind (multivariant and media playlists waiting for first content, blocking reload, preload hint, segment) and an armed subset of the yield hooks in Close, in the server dispatch, in the preload-hint handler and between Unlock and Broadcast; the scheduler interleaves Close's steps with the wake-up of each waiter and with new requests. Non-trivial = at least one client request was issued; distinct = distinct scheduler decision/observation signatures.",
   "real": MUX_REAL, "stub": MUX_STUB,
   "assumptions": MUX_ASSUME + ["media playlist names used before the first content exists are guessed; a wrong guess reaches no handler and only reduces coverage"]}
LEVEL_TEXT["C07"] = ("Seeded exploration of Close against every mix of pending requests, with the scheduler deciding the order of Close's "
   "steps and each waiter's wake-up at guarded yield points; after Close returns every request must be complete, the mutex free "
   "(TryLock accessor), later requests answered and the Directory empty. Sampling of schedules.")
NOT_APPLICABLE.pop("C07", None)

META["C06"] = {"level": "exploration",
   "rule": "Low-Latency muxer; each run draws a configuration, a write script, up to 12 concurrent requesters and an armed subset of the yield hooks between Unlock and Broadcast, in the server dispatch and in the preload-hint handler. Every request is generated relative to the playlist current at issue time (expired, head, gap entry, past, last complete, open segment with existing/next/next+1/far part, open+1, open+2.., far future; with/without _HLS_part, _HLS_skip, extra query parameters, junk numbers, preload-hint GETs). Safety is checked on every response, bounded liveness at every rest point where the writer is between operations, delta updates against the full playlist of the same instant. Non-trivial = at least one client request; distinct = distinct scheduler decision/observation signatures.",
   "real": MUX_REAL, "stub": MUX_STUB, "assumptions": MUX_ASSUME + [
       "a 400 for the oldest listed media sequence number is accepted either way (the pinned test TestMuxerExpiredSegment fixes it)"]}
LEVEL_TEXT["C06"] = ("Seeded exploration of writer/requester interleavings of a Low-Latency muxer with (M,P) chosen relative to the live "
   "playlist; responses are checked for containing the requested segment/part or being a justified 400, pending requests for "
   "published targets are flagged at rest (lost wake-up), preload-hint bodies are compared with the listed part, delta updates "
   "with the full playlist of the same instant. Sampling of schedules and histories.")
NOT_APPLICABLE.pop("C06", None)

META["C08"] = {"level": "exploration",
   "rule": "serial profile: one writer (parameter changes, disk finalisation) and 1-6 reader tasks issuing every kind of URL, interleaved by the scheduler at six yield hooks (server dispatch, preload-hint delegate, segment/part copy, partDisk.Reader, between Unlock and Broadcast); reference snapshots of all playlists are taken at every rest point and each response must equal one taken between its invoke and return. race profile: the same workload under -race, where one scheduler step releases the writer (a batch of writes, optionally Close) and all readers at once so that they run truly concurrently. Non-trivial = content appeared (serial) / at least one burst (race); distinct = distinct scheduler decision/observation signatures.",
   "real": MUX_REAL + ["Go race detector (ThreadSanitizer) in the race profile"], "stub": MUX_STUB,
   "assumptions": MUX_ASSUME + ["race profile: which accesses overlap inside a burst is decided by the Go runtime, not by the tape; a race report is sound (happens-before), its replay is re-running the seed up to 20 times rather than exact"]}
LEVEL_TEXT["C08"] = ("Seeded exploration: deterministic interleaving of reader requests with writer steps at yield hooks with an "
   "atomic-view oracle against reference snapshots, plus bursts of true concurrency under the race detector. Data races are "
   "decided by happens-before analysis of the executions sampled, panics by the process, views by comparison. Sampling.")
NOT_APPLICABLE.pop("C08", None)

CLI_REAL = ["gohlslib Client (all goroutines: primary/stream downloaders, stream and track processors, segment queue, time conversion)",
            "net/http.Client above the transport", "pkg/playlist decoder", "mediacommon fmp4/mpegts readers inside the client"]
CLI_STUB = ["transport: simulated http.RoundTripper (no TCP/TLS/HTTP framing); latency, reordering and faults drawn from the tape",
            "origin server: scripted stream model (traditional and Low-Latency) rendered with mediacommon writers and the harness's own playlist emitter",
            "clock: testing/synctest fake clock (pacing sleeps, timers, context deadlines)"]
CLI_ASSUME = COMMON_ASSUME + ["goroutines of the client that are ready at the same simulated instant are ordered by seeded nanosecond delays at six guarded hand-over points (half of the runs) and otherwise by the Go runtime, which also picks among ready select cases; decisions and oracles only use state at rest",
                              "the origin honours Range headers exactly and resolves URLs per RFC 3986 (Go net/url)"]
META["C11"] = {"level": "exploration",
   "rule": "each run draws a stream (MPEG-TS or fMP4, 3-14 segments, optional audio renditions, byte-range or whole-file addressing, relative/sub-directory/absolute/query-carrying URIs) and a playlist history (VOD, EVENT, live by simulated time, or scripted per poll: window 1..10, media sequence advancing 0..7 per poll, ENDLIST at any time) and network latencies; the statement's rule is replayed over the ordered request log and the playlist states served. Non-trivial = at least three requests; distinct = distinct signatures of origin + latencies.",
   "real": CLI_REAL, "stub": CLI_STUB, "assumptions": CLI_ASSUME}
LEVEL_TEXT["C11"] = ("Seeded exploration of scripted playlist histories and network latencies against the real client; the ordered "
   "request log is checked request by request against the rule derived from the statement. Sampling of histories.")
NOT_APPLICABLE.pop("C11", None)

META["C12"] = {"level": "fault_enumeration",
   "rule": "fault-sweep profile: for each sampled scenario (stub origin: container, mode, renditions, byte ranges, latencies) one fault is placed at every request index 0..39 in turn for each of the kinds status != 200, transport error, stalled body and never-answered request (both followed by a user Close), plus an OnTracks error: 200 runs per scenario. close-sweep profile: for each sampled scenario Close is placed at every scheduler event 1..200 in turn, or (every second scenario) at every point 0..199 of a time grid of 5, 23, 100 or 500 ms, (1-3 Close calls, optionally racing an injected fault; positions past the end close after EOS). Non-trivial = the fault fired / a Close was placed; distinct = distinct signatures of scenario + position + observations.",
   "real": CLI_REAL, "stub": CLI_STUB,
   "assumptions": CLI_ASSUME + ["scenarios (origins, latencies) are sampled; within a scenario the fault position and the Close position are enumerated exhaustively up to the stated bounds (40 requests, 200 events)",
                                "goroutine leaks are decided from runtime.Stack of all goroutines filtered to gohlslib client frames, at rest, after Wait yielded"]}
LEVEL_TEXT["C12"] = ("Fault enumeration: per sampled scenario, every request index up to 40 receives each fault kind in turn and every "
   "scheduler event up to 200 receives a Close in turn; after Wait yields the harness checks single delivery (30 simulated seconds "
   "of silence), error identity, absence of client goroutines and of later callbacks. Scenarios themselves are sampled.")
NOT_APPLICABLE.pop("C12", None)

META["C10"] = {"level": "exploration",
   "rule": "each run draws a well-formed stream model (MPEG-TS or fMP4; 1 video + 0..2 audio in one playlist or 1-3 audio renditions with other timescales; base times 0..2^40 for fMP4 and anywhere on the 33-bit circle incl. a wrap inside the stream for MPEG-TS; B-frame style PTS offsets; 1..24 fragments per segment; whole-file or byte-range addressing; with/without PROGRAM-DATE-TIME; VOD, EVENT and live) and network latencies 0..500 ms; the expected delivery is computed from the model and compared unit by unit. Non-trivial = tracks were reported; distinct = distinct signatures of origin + latencies.",
   "real": CLI_REAL, "stub": CLI_STUB, "assumptions": CLI_ASSUME + ["fault-free network in this property's profile"]}
LEVEL_TEXT["C10"] = ("Seeded exploration of synthesized streams; tracks, bytes, order, normalised DTS/PTS (+-1 tick across timescales), "
   "dropping of units before the origin and AbsoluteTime are compared with a model of the stream, and an ending stream must end "
   "with ErrClientEOS within a bounded simulated time. Sampling of inputs.")
NOT_APPLICABLE.pop("C10", None)

META["C13"] = {"level": "exploration",
   "rule": "twin profile: a well-formed stream model is turned into a well-formed-but-unexpected one (extra/only/first track with a codec gohlslib has no decoder for - MPEG-1 audio, AC-3, MJPEG, LPCM, MPEG-4/MPEG-1 video in fMP4; Opus, MP3, H265 in MPEG-TS - track-id permutations, no leading-track data from some segment on, 12 tracks, zero/huge durations, base times and PTS offsets, mixed MPEG-TS/fMP4 renditions) and served consistently. spot profile: 1-3 request positions (0..25) get their response damaged at the byte level (playlists: line loss/duplication/swap, truncation, numeric damage, byte flips, splices of the repository's fuzz corpora; media: truncation at every box/packet boundary or anywhere, empty body, payload flips, duplication, holes), optionally on top of a twin. Non-trivial = something was damaged; distinct = distinct signatures.",
   "real": CLI_REAL, "stub": CLI_STUB,
   "assumptions": CLI_ASSUME + ["random byte flips in media are confined to the payload half of a body so that box/packet sizes stay sane (memory exhaustion inside the mediacommon dependency is out of scope)",
                                "a client that has neither ended nor failed at the time limit is accepted only while one of its goroutines is pacing a sample or a request is still in flight"]}
LEVEL_TEXT["C13"] = ("Seeded exploration of structure-aware and byte-level damage to server responses at every request position; "
   "a panic kills the worker and is attributed by stack, a busy loop is caught by the watchdog, a silent stall by goroutine "
   "inspection at the time limit, and Close must still end the client without leaked goroutines. Sampling of inputs and fault positions.")
NOT_APPLICABLE.pop("C13", None)

META["C09"] = {"level": "exploration",
   "rule": "each run draws a muxer configuration (three variants x track sets x every codec x RAM/disk) and a write script, a writer paced on the simulated clock (jitter, optional stall), the moment at which the client attaches, the primary URL (multivariant or media playlist) and per-request network latency 0..2 s; the real Client reads the real Muxer through the simulated transport (Handle runs in its own goroutine per request). Non-trivial = tracks were reported; distinct = distinct signatures.",
   "real": CLI_REAL + MUX_REAL, "stub": ["transport (simulated RoundTripper, latency from the tape)", "clock (synctest)", "access units: minimal synthetic bitstreams", "wall clock: ntp = base + media time exactly"],
   "assumptions": CLI_ASSUME + ["a client that stops with 'not enough segments', 'next segment not found' or 'playback is too late' is an accepted outcome (C11); what it delivered before is still checked",
                                "no codec parameter changes in this profile; PTS = DTS"]}
LEVEL_TEXT["C09"] = ("Seeded end-to-end exploration: the real client attached to the real muxer over the simulated network and clock; "
   "reported tracks, byte identity, order, gap-freedom (MPEG-TS, fMP4), normalised PTS/DTS and AbsoluteTime of every delivery are "
   "compared with the harness's record of what was written. Sampling of configurations, inputs and schedules.")
NOT_APPLICABLE.pop("C09", None)

META["C11"]["rule"] += (" ll-muxer profile: the real Low-Latency muxer as origin (writer paced on the simulated clock); every playlist "
                        "reload must carry _HLS_skip=YES exactly when the first playlist advertised CAN-SKIP-UNTIL and every media "
                        "download must be the preload hint of the latest playlist of its stream, one per playlist.")
META["C11"]["real"] = CLI_REAL + ["ll-muxer profile: the real gohlslib Muxer as origin"]

META["C05"]["rule"] += (" held profile: reader tasks are parked at the yield hooks between handler lookup and call and between opening a segment/part "
                        "reader and copying it while the writer finalises, rotates or expires that object (small window), then resumed: a 200 "
                        "response must carry exactly the bytes the object had when it was listed.")

META["C13"]["rule"] += (" muxer-spot profile: the real muxer (mostly Low-Latency) is the origin and 1-3 of the first 40 responses are damaged at the "
                        "byte level, so that e.g. a later Low-Latency playlist loses its preload hint, its parts or its server-control line.")
META["C13"]["real"] = CLI_REAL + ["muxer-spot profile: the real gohlslib Muxer as origin"]

META["C04"]["rule"] += (" cross-burst profile: the writer (whole script, back to back) and 2-4 readers alternating between the streams' playlists run "
                        "truly concurrently in one step; per reader the last listed media sequence number must never decrease from one "
                        "response to the next, whatever the stream (interleavings are the Go runtime's; judged at rest).")
META["C20"]["rule"] += (" queue-burst profile: producer and consumer hammer the real queue truly concurrently in one step (2000-20000 hand-overs); at rest a "
                        "consumer waiting although completed pushes outnumber pulls, or a producer waiting below its threshold, is a lost wake-up.")

for _p in ("C09", "C10", "C11", "C12", "C13"):
    META[_p]["rule"] += (" In half of the runs the client's own goroutines are held 0-3 simulated nanoseconds (fixed per site per run, drawn "
                         "before the client exists) at five guarded hand-over points, which makes their relative order a function of the seed.")

META["C02"]["rule"] += (" init-burst profile: the writer (whole script, parameter changes at every 1st-3rd key frame) and 2-4 readers looping over "
                        "playlist -> init -> newest listed segment run truly concurrently in one step; the init fetched after a playlist must never be older "
                        "than the parameters that playlist's newest segment was encoded with (judged at rest; interleavings are the Go runtime's).")
META["C03"]["rule"] += (" target-burst profile: same burst shape, the OnEncodeError callback spins for a seeded while; every playlist any reader saw must have "
                        "TARGETDURATION >= round(EXTINF) of every listed segment and, per reader, a TARGETDURATION that never decreases.")
META["C17"]["rule"] += (" A neighbour file of the same factories is written, finalised, read back and removed in between (cross-file isolation). race-store "
                        "profile: Finalize (and Remove) run truly concurrently with 2-6 goroutines that open and drain part readers, under the race detector; "
                        "every reader returns exactly its part's bytes.")
META["C11"]["rule"] += (" A fault-free run in which no served playlist state calls for a stop must not end with an error (unexpected-stop). Byte ranges span several "
                        "resources and EXT-X-MAP may carry a BYTERANGE; with the real muxer as origin the primary URL may carry a query that every request must keep.")

META["C05"]["rule"] += (" Unknown-URI probes include part-shaped names around real segment names. parts-burst profile (Low-Latency, mostly Directory storage): "
                        "writer and 2-4 readers truly concurrent; every part a playlist lists is fetched at once and must answer 200 with the bytes it had "
                        "before, unless its segment has left the window by the time a fresh playlist is fetched.")
META["C11"]["rule"] += (" ll-stub profile: a Low-Latency origin of pre-generated content (parts by URI or as byte ranges, published at fixed instants, hinted "
                        "part held until then): every playlist is followed by exactly its hint (URI and Range), every hint by a reload, _HLS_skip=YES exactly "
                        "when CAN-SKIP-UNTIL was advertised. ErrClientEOS only after the last segment of every stream was requested.")
META["C12"]["rule"] += (" Further fault kind: a body cut short of its announced length (error must be the unexpected-EOF one). Close is also called from inside the "
                        "n-th user callback. handover profile: the stream processor is held 50-300 ms before each hand-over to a track processor, segments of "
                        "several fragments, Close on a time grid. ll-close profile: Close on a time grid against the Low-Latency stub origin publishing up to 50x "
                        "faster than real time. A run in which every goroutine ends up blocked with no timer pending is the verdict 'deadlock'.")
META["C13"]["rule"] += (" Further variants: init sections declaring a time scale of 0, 1 or 2^32-1; samples of size zero; playlists that lose every line of one tag kind.")

META["C18"]["rule"] += (" held profile: the bounds are evaluated while requests sit inside their handlers (guarded sites) and the window moves. go-on profile: the "
                        "application keeps writing after Write errors (oversized samples; an H264 stream that never carries a PPS, so that every rotation fails).")
META["C08"]["rule"] += (" go-on profile: as in C18, the run continues after Write errors; any panic of a later Write or request is a violation.")
META["C16"]["rule"] += (" index-burst profile: 2-4 readers request the multivariant playlist concurrently with the writer, each with a query of its own; every URI of an "
                        "answer carries exactly the query of its request. AV1 sequence headers are generated (levels, tiers, depths, colour descriptions).")
META["C20"]["rule"] += (" queue-cancel-burst profile: per round one goroutine enters pull or waitUntilSizeIsBelow while another cancels the context after a seeded number "
                        "of yields; at rest the waiter must have returned. The end-to-end tier also plays playlists that grow with every poll and playlists "
                        "carrying a preload hint without CAN-BLOCK-RELOAD.")
META["C10"]["rule"] += (" race-stub profile: the same scenario built with the race detector.")

META["C05"]["rule"] += (" go-on profile: the application keeps writing after Write errors (an H264 stream whose PPS arrives late or never); whatever is listed then is "
                        "fetchable. In the held profile every segment below the window of a playlist served while the writer is parked inside a rotation must "
                        "not answer with media.")
META["C12"]["rule"] += (" Transport faults may wrap context.DeadlineExceeded (as http.Client.Timeout does); status 206 is a fault on playlist requests.")
META["C13"]["rule"] += (" Further variants: an audio rendition with only an unsupported codec; EXT-X-GAP on segments including the last.")
META["C17"]["rule"] += (" A longer file of the same name may pre-exist in the directory; readers are also drained with io.Copy.")
META["C16"]["rule"] += (" The answer to the request that waited for the first content equals the answer to a request issued at the same rest point.")
