#!/usr/bin/env python3
"""Confirms a seeded change delivered by a sub-agent and runs the checks against it.

  python3 seedcheck.py <mutant-dir> <PROPERTY> <name> [--props C01,C05] [--tier quick] [--scale 1]

<mutant-dir> holds patch.diff, demo_test.go, README.txt. Everything happens in a scratch copy of /repo
under /dev/shm that is removed afterwards; /repo itself is never modified. The confirmed change is stored
as /verif/seeded/<name>/ (patch.diff, the demonstration, meta.json).
"""
import json, os, re, shutil, subprocess, sys, tempfile, time

VERIF = os.path.dirname(os.path.abspath(__file__))
ENV = dict(os.environ, GOFLAGS="-mod=mod", GOPROXY="off", GOSUMDB="off", GOTOOLCHAIN="local")


def sh(cmd, cwd, timeout=1800, env=ENV):
    p = subprocess.run(cmd, cwd=cwd, env=env, shell=isinstance(cmd, str), capture_output=True, text=True, timeout=timeout)
    return p.returncode, p.stdout + p.stderr


def suite(cwd):
    # the client tests bind a fixed TCP port: retry when another run holds it
    for attempt in range(6):
        rc, out = sh("go test -vet=off -count=1 . ./pkg/...", cwd)
        if rc == 0:
            return True, out
        if "address already in use" in out:
            time.sleep(5)
            continue
        return False, out
    return False, out


def main():
    args = sys.argv[1:]
    mdir, prop, name = args[0], args[1], args[2]
    props = [prop]
    tier, scale = "quick", "1"
    for i, a in enumerate(args):
        if a == "--props":
            props = args[i + 1].split(",")
        if a == "--tier":
            tier = args[i + 1]
        if a == "--scale":
            scale = args[i + 1]
    patch = os.path.join(mdir, "patch.diff")
    demo = os.path.join(mdir, "demo_test.go")
    readme = open(os.path.join(mdir, "README.txt")).read() if os.path.exists(os.path.join(mdir, "README.txt")) else ""
    scratch = tempfile.mkdtemp(prefix="seed-", dir="/dev/shm")
    res = {"name": name, "property": prop}
    try:
        clean = os.path.join(scratch, "clean")
        mut = os.path.join(scratch, "mut")
        for d in (clean, mut):
            subprocess.check_call(["rsync", "-a", "--exclude", ".git", "/repo/", d + "/"])
        rc, out = sh(["patch", "-p1", "-s", "--fuzz=3", "-i", os.path.abspath(patch)], mut)
        res["patch_applies"] = rc == 0
        if rc != 0:
            res["error"] = out[-600:]
            print(json.dumps(res, indent=1))
            return 3
        rc, out = sh("go build . ./pkg/... && go build -tags verif . ./pkg/...", mut)
        res["builds"] = rc == 0
        if rc != 0:
            res["error"] = out[-600:]
            print(json.dumps(res, indent=1))
            return 3
        ok, out = suite(mut)
        res["suite_passes_with_patch"] = ok
        if not ok:
            res["error"] = out[-800:]
        # demonstration: which package directory?
        src = open(demo).read()
        pkg = re.search(r"^package (\w+)", src, re.M).group(1)
        sub = {"gohlslib": ".", "storage": "pkg/storage", "playlist": "pkg/playlist", "codecparams": "pkg/codecparams", "codecs": "pkg/codecs"}.get(pkg, ".")
        tests = re.findall(r"^func (Test\w+)\(", src, re.M)
        race = "-race" in readme and ("go test -race" in readme or "-race -" in readme)
        cmd = "go test -vet=off -count=1 %s -run '^(%s)$' ./%s" % ("-race" if race else "", "|".join(tests), sub)
        out_by = {}
        for label, d in (("with_patch", mut), ("without_patch", clean)):
            shutil.copy(demo, os.path.join(d, sub, "zz_seed_demo_test.go"))
            rc, out = sh(cmd, d, timeout=1200)
            out_by[label] = (rc, out[-500:])
            os.remove(os.path.join(d, sub, "zz_seed_demo_test.go"))
        res["demo_cmd"] = cmd
        res["demo_fails_with_patch"] = out_by["with_patch"][0] != 0
        res["demo_passes_without_patch"] = out_by["without_patch"][0] == 0
        if not res["demo_passes_without_patch"]:
            res["demo_clean_output"] = out_by["without_patch"][1]
        # the checks
        res["checks"] = {}
        env = dict(os.environ, VERIF_REPO_DIR=mut, VERIF_SCALE=scale)
        for p in props:
            t0 = time.time()
            pr = subprocess.run([sys.executable, os.path.join(VERIF, "check.py"), p, tier], env=env, capture_output=True, text=True)
            lines = [l for l in pr.stdout.splitlines() if l.startswith(("VIOLATION", "KNOWN", "INFRA"))]
            res["checks"][p] = {"rc": pr.returncode, "wall_s": round(time.time() - t0, 1),
                                "violations": [re.sub(r"replay=\S+", "", l)[:260] for l in lines[:3]]}
        confirmed = res["suite_passes_with_patch"] and res["demo_fails_with_patch"] and res["demo_passes_without_patch"]
        res["confirmed"] = confirmed
        res["detected_by"] = [p for p, c in res["checks"].items() if c["rc"] == 1]
        if confirmed:
            out_dir = os.path.join(VERIF, "seeded", name)
            os.makedirs(out_dir, exist_ok=True)
            shutil.copy(patch, os.path.join(out_dir, "patch.diff"))
            shutil.copy(demo, os.path.join(out_dir, "demo_test.go"))
            meta = {
                "property": prop, "name": name,
                "needs_to_manifest": extract_needs(readme),
                "author": "independent sub-agent given only the property text and a scratch worktree",
                "what_was_run": {
                    "suite": "go test -vet=off -count=1 . ./pkg/... (scratch copy with the patch): pass",
                    "demonstration": cmd + " : fails with the patch, passes without",
                    "checks": {p: ("python3 check.py %s %s (VERIF_REPO_DIR=<scratch copy with the patch>, VERIF_SCALE=%s): exit %d" % (p, tier, scale, c["rc"])) for p, c in res["checks"].items()},
                },
                "detected_by": res["detected_by"],
                "first_violation_lines": {p: c["violations"][:1] for p, c in res["checks"].items()},
            }
            json.dump(meta, open(os.path.join(out_dir, "meta.json"), "w"), indent=1)
            if readme:
                open(os.path.join(out_dir, "README.txt"), "w").write(readme)
    finally:
        shutil.rmtree(scratch, ignore_errors=True)
    print(json.dumps(res, indent=1))
    return 0


def extract_needs(readme):
    m = re.search(r"(?is)(what (?:exactly )?is needed.*?|needs?.*?|trigger.*?)\n\s*\n", readme)
    txt = m.group(0).strip() if m else readme[:600]
    return txt[:900]


if __name__ == "__main__":
    sys.exit(main())
