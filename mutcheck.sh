#!/bin/bash
# usage: mutcheck.sh <patch.diff> <prop> [<prop>...]   (env VERIF_SCALE, VERIF_TIER)
# Applies a patch to a scratch copy of /repo (never to /repo itself), runs the quick checks against it, removes the copy.
set -u
patch=$(readlink -f "$1"); shift
dir=$(mktemp -d /dev/shm/mut-XXXXXX)
trap 'rm -rf "$dir"' EXIT
rsync -a --exclude .git /repo/ "$dir/"
if ! (cd "$dir" && patch -p1 -s < "$patch"); then echo "PATCH-FAILED $patch"; exit 3; fi
if ! (cd "$dir" && GOFLAGS=-mod=mod GOPROXY=off GOSUMDB=off GOTOOLCHAIN=local go build . ./pkg/... ) ; then echo "BUILD-FAILED"; exit 3; fi
for p in "$@"; do
  out=$(VERIF_REPO_DIR="$dir" python3 /verif/check.py "$p" ${VERIF_TIER:-quick} 2>&1); rc=$?
  echo "== $p rc=$rc $(echo "$out" | grep -c '^VIOLATION') violation line(s)"
  echo "$out" | grep '^VIOLATION' | head -3 | cut -c1-330
  echo "$out" | grep 'INFRA' | head -3 | cut -c1-300
done
