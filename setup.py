#!/usr/bin/env python3
"""Offline setup: warms the Go build cache by building the simulator once (normal and -race)."""
import os, shutil, sys
sys.path.insert(0, os.path.dirname(os.path.abspath(__file__)))
import check
wd = os.path.join(check.VERIF, ".build", "setup")
try:
    check.build(wd, os.environ.get("VERIF_REPO_DIR", "/repo"), False)
    check.build(wd, os.environ.get("VERIF_REPO_DIR", "/repo"), True)
finally:
    shutil.rmtree(wd, ignore_errors=True)
print("setup ok")
