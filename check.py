#!/usr/bin/env python3
"""Runner for the gohlslib deterministic simulator.

  python3 check.py <ID> quick|thorough          run the check of one property
  python3 check.py <ID> --replay <file>         re-execute one replay file
  python3 check.py --list                        list registered properties/profiles

Exit 0: property held on everything explored (KNOWN-FINDING lines possible).
Exit 1: at least one 'VIOLATION property=<ID> replay=<path>' line.
Exit 2: infrastructure trouble (build failure, harness panic, unclassifiable hang).
"""
import json
import os
import re
import shutil
import subprocess
import sys
import time
from concurrent.futures import ThreadPoolExecutor

VERIF = os.path.dirname(os.path.abspath(__file__))
SIM = os.path.join(VERIF, "sim")
GO = "go1.26.8"

sys.path.insert(0, VERIF)
from props_meta import META  # noqa: E402


def goenv():
    e = dict(os.environ)
    e.update(GOFLAGS="-mod=mod", GOPROXY="off", GOSUMDB="off", GOTOOLCHAIN="local")
    return e


def infra(msg):
    print("INFRA-ERROR: " + msg, flush=True)
    sys.exit(2)


def build(workdir, repo, race):
    """Builds the simulator test binary against the current working tree of repo."""
    os.makedirs(workdir, exist_ok=True)
    gomod = open(os.path.join(SIM, "go.mod")).read()
    gomod = re.sub(r"replace github.com/bluenviron/gohlslib/v2 => .*",
                   "replace github.com/bluenviron/gohlslib/v2 => " + repo, gomod)
    modfile = os.path.join(workdir, "go.mod")
    open(modfile, "w").write(gomod)
    # go.sum: the repository's own plus the simulator's additions
    sums = set()
    for p in (os.path.join(repo, "go.sum"), os.path.join(SIM, "go.sum")):
        if os.path.exists(p):
            sums.update(l for l in open(p).read().splitlines() if l.strip())
    open(os.path.join(workdir, "go.sum"), "w").write("\n".join(sorted(sums)) + "\n")
    out = os.path.join(workdir, "sim-race.test" if race else "sim.test")
    cmd = [GO, "test", "-c", "-tags", "verif", "-modfile=" + modfile, "-o", out]
    if race:
        cmd.append("-race")
    cmd.append(".")
    p = subprocess.run(cmd, cwd=SIM, env=goenv(), capture_output=True, text=True)
    if p.returncode != 0:
        infra("build failed:\n" + p.stdout + p.stderr)
    return out


def list_props(binary, workdir):
    path = os.path.join(workdir, "props.json")
    e = goenv()
    e["VERIF_LIST"] = path
    p = subprocess.run([binary, "-test.run", "^TestListProps$"], env=e, capture_output=True, text=True)
    if p.returncode != 0 or not os.path.exists(path):
        infra("cannot list properties:\n" + p.stdout + p.stderr)
    return {x["id"]: x for x in json.load(open(path))}


def run_worker(binary, job, workdir, tag, timeout):
    jobpath = os.path.join(workdir, "job-%s.json" % tag)
    job = dict(job)
    job["out"] = os.path.join(workdir, "out-%s.json" % tag)
    job["journal"] = os.path.join(workdir, "journal-%s" % tag)
    job["dump"] = os.path.join(workdir, "dump-%s.txt" % tag)
    json.dump(job, open(jobpath, "w"))
    e = goenv()
    e["VERIF_JOB"] = jobpath
    e["GORACE"] = "halt_on_error=1 exitcode=66"
    e.setdefault("GOMAXPROCS", "4" if "burst" in str(job.get("profile", "")) else "2")
    e.setdefault("GOGC", "400")
    try:
        p = subprocess.run([binary, "-test.run", "^TestWorker$", "-test.timeout", "24h"],
                           env=e, capture_output=True, text=True, timeout=timeout)
        rc, so, se = p.returncode, p.stdout, p.stderr
    except subprocess.TimeoutExpired as ex:
        rc, so, se = -9, (ex.stdout or b"").decode(errors="replace") if isinstance(ex.stdout, bytes) else (ex.stdout or ""), "TIMEOUT"
    res = {"rc": rc, "stdout": so, "stderr": se, "job": job, "out": None, "journal": None}
    if os.path.exists(job["out"]):
        try:
            res["out"] = json.load(open(job["out"]))
        except Exception:
            pass
    if os.path.exists(job["journal"]):
        try:
            i, s = open(job["journal"]).read().split()
            res["journal"] = (int(i), int(s))
        except Exception:
            pass
    if os.path.exists(job["dump"]):
        res["dump"] = open(job["dump"]).read()
    return res


LIB_FRAME = re.compile(r"github\.com/bluenviron/(gohlslib/v2|mediacommon/v2)[./]|github\.com/asticode/go-astits")
HARNESS_FRAME = re.compile(r"\bverifsim\.")


def frame_key(frame):
    """'github.com/bluenviron/gohlslib/v2.(*muxerStream).rotateParts.func1({0x..})' -> '(*muxerStream).rotateParts.func1'"""
    m = re.search(r"(?:gohlslib/v2|mediacommon/v2|go-astits)(?:/[\w/]+)?\.((?:\(\*?\w+\)\.)?[\w.]+)", frame)
    return m.group(1) if m else frame.split("/")[-1][:60]


def classify_crash(text):
    """Classifies a worker crash. Returns (kind, key, excerpt).
    kind: 'panic' (library panic), 'race' (race detector report), 'harness', 'unknown'."""
    if "WARNING: DATA RACE" in text:
        # every report of the run; the first one in which an access sits in a library frame decides. Reports whose two
        # accesses are both harness code (state the scheduler reads at rest) say nothing about the library.
        reports = re.findall(r"WARNING: DATA RACE.*?(?:==================|\Z)", text, re.S)
        for ex in reports or [text[-4000:]]:
            tops = []
            for blk in re.split(r"\n\s*\n", ex)[:2]:
                fr = [f for f in re.findall(r"^\s+(github\.com/bluenviron/\S+?)\(\)", blk, re.M) if "verifsim" not in f]
                if fr:
                    tops.append(fr[0].split("/")[-1])
            if tops:
                return "race", "|".join(sorted(set(tops))), ex[:6000]
        return "harness", "", "data race between harness goroutines only:\n" + (reports[0] if reports else text)[:3000]
    m = re.search(r"^(panic: .*|fatal error: .*)$", text, re.M)
    if m:
        head = m.group(1)
        tail = text[m.start():]
        # first goroutine block after the panic line = the panicking goroutine
        blocks = tail.split("\n\n")
        first = blocks[1] if len(blocks) > 1 and blocks[0].count("\n") <= 2 else blocks[0]
        if blocks[0].startswith("panic") and "goroutine " in blocks[0]:
            first = blocks[0]
        stack_funcs = re.findall(r"^([^\s].*?)\(.*\)$", first, re.M)
        libf = [f for f in stack_funcs if LIB_FRAME.search(f)]
        harf = [f for f in stack_funcs if HARNESS_FRAME.search(f)]
        # a panic raised inside library frames (the top non-runtime frame is a library frame)
        nonrt = [f for f in stack_funcs if not f.startswith(("runtime.", "panic(", "testing.", "internal/"))]
        if libf and nonrt and LIB_FRAME.search(nonrt[0]):
            return "panic", frame_key(libf[0]), (head + "\n" + first)[:6000]
        if "all goroutines are asleep" in head:
            return "unknown", "deadlock", tail[:4000]
        if harf and not libf:
            return "harness", "", (head + "\n" + first)[:4000]
        if libf:
            return "panic", frame_key(libf[0]), (head + "\n" + first)[:6000]
        return "harness", "", (head + "\n" + first)[:4000]
    return "unknown", "", text[-3000:]


def classify_hang(dump):
    """Classifies a watchdog dump. Returns (oracle, key, excerpt) or None."""
    blocks = dump.split("\n\n")
    lockers, spinners = [], []
    for b in blocks:
        if not b.startswith("goroutine "):
            continue
        if not LIB_FRAME.search(b):
            continue
        head = b.split("\n", 1)[0]
        if "sync.Mutex.Lock" in head or "[sync.Mutex.Lock" in head or "sync.(*Mutex).Lock" in b and "semacquire" in head:
            lockers.append(b)
        elif re.search(r"\[(running|runnable)", head):
            spinners.append(b)
    if lockers:
        f = re.findall(r"^(github\.com/bluenviron/gohlslib/v2[^\s(]*)\(", lockers[0], re.M)
        return "lock-left-held", (f[0].split("/")[-1] if f else "unknown"), lockers[0][:4000]
    if spinners:
        f = re.findall(r"^(github\.com/bluenviron/[^\s(]*)\(", spinners[0], re.M)
        return "busy-loop", (f[0].split("/")[-1] if f else "unknown"), spinners[0][:4000]
    return None


def load_known():
    p = os.path.join(VERIF, "known_findings.json")
    if not os.path.exists(p):
        return []
    return json.load(open(p)).get("known", [])


def match_known(known, prop, oracle, key):
    for k in known:
        if k["property"] == prop and k["oracle"] == oracle and (k.get("key") in (None, "*", key)):
            return k
    return None


def main():
    args = sys.argv[1:]
    if not args:
        print(__doc__)
        sys.exit(2)
    repo = os.environ.get("VERIF_REPO_DIR", "/repo")
    jobs = int(os.environ.get("VERIF_JOBS", str(os.cpu_count() or 4)))
    seed = int(os.environ.get("VERIF_SEED", "1")) & ((1 << 63) - 1)
    # scratch space: tmpfs when available (the root file system of the sandbox needs ~5 ms per
    # file operation, which dominates runs that create real files); everything is removed at exit
    base = "/dev/shm" if os.access("/dev/shm", os.W_OK) else os.path.join(VERIF, ".build")
    workdir = os.path.join(base, "verif-w%d" % os.getpid())
    os.makedirs(os.path.join(workdir, "tmp"), exist_ok=True)
    os.environ["TMPDIR"] = os.path.join(workdir, "tmp")
    outdir = os.path.join(VERIF, "out", "replays")
    os.makedirs(outdir, exist_ok=True)
    try:
        rc = run(args, repo, jobs, seed, workdir, outdir)
    finally:
        shutil.rmtree(workdir, ignore_errors=True)
    sys.exit(rc)


def run(args, repo, jobs, seed, workdir, outdir):
    if args[0] == "--list":
        b = build(workdir, repo, False)
        print(json.dumps(list_props(b, workdir), indent=1))
        return 0
    prop = args[0]
    if prop not in META:
        infra("unknown property " + prop)
    meta = META[prop]
    if len(args) >= 3 and args[1] == "--replay":
        return do_replay(prop, args[2], repo, workdir)
    tier = os.environ.get("VERIF_TIER") or (args[1] if len(args) > 1 else "quick")
    if len(args) > 1 and args[1] in ("quick", "thorough"):
        tier = args[1]
    if tier not in ("quick", "thorough"):
        infra("bad tier " + tier)
    t0 = time.time()
    binary = build(workdir, repo, False)
    props = list_props(binary, workdir)
    if prop not in props:
        infra("property %s not registered in the simulator" % prop)
    pd = props[prop]
    total = pd[tier]
    scale = float(os.environ.get("VERIF_SCALE", "1"))
    total = max(1, int(total * scale))
    need_race = any(p["race"] for p in pd["profiles"])
    race_binary = build(workdir, repo, True) if need_race else None
    share_sum = sum(p["share"] for p in pd["profiles"])
    wall_cap = int(os.environ.get("VERIF_WALL_S", "900" if tier == "quick" else "14400"))
    # chunk the budget
    tasks = []
    for p in pd["profiles"]:
        n = max(1, total * p["share"] // share_sum)
        nchunks = max(1, min(jobs * 3, n // 20 or 1))
        per = (n + nchunks - 1) // nchunks
        # one worker process never runs more than this many runs (bounds what a process can accumulate: the race
        # detector's shadow memory, goroutines a violated run left behind)
        per = min(per, 2500 if p["race"] else 60000)
        start = 0
        while start < n:
            c = min(per, n - start)
            tasks.append((p, start, c))
            start += c
    results = []
    known = load_known()
    # a worker stops after this many violations; known findings count among them inside the worker, so a property
    # that has one gets more room (otherwise its batches end early and explore less than their budget)
    max_viol = 40 if any(k.get("property") == prop for k in known) else 3

    def do(i_task):
        i, (p, start, count) = i_task
        job = {"mode": "batch", "property": prop, "profile": p["name"], "seed": seed,
               "start": start, "count": count, "replay_to": workdir, "samples": 1,
               "max_viol": max_viol, "wall_s": wall_cap, "shrink_s": 20}
        b = race_binary if p["race"] else binary
        return run_worker(b, job, workdir, "b%d" % i, wall_cap + 600)

    with ThreadPoolExecutor(max_workers=jobs) as ex:
        results = list(ex.map(do, enumerate(tasks)))

    # aggregate
    agg = {"runs": 0, "steps": 0, "sim_ns": 0, "faults": {}, "faults_conf": {}, "hooks": {}, "probes": {},
           "cells": set(), "sigs": set(), "nontrivial": 0, "samples": [], "leaked": 0, "profiles": {}}
    viols = []      # (oracle, key, msg, replay_path, profile)
    infra_msgs = []
    wall_cap_hit = False
    crashes_handled = 0
    for res, (p, start, count) in zip(results, tasks):
        o = res["out"]
        if o and not o.get("harness_err"):
            merge(agg, o, p["name"])
            wall_cap_hit = wall_cap_hit or o.get("wall_cap_hit", False)
            for v in (o.get("violations") or []):
                viols.append((v["oracle"], v["key"], v["msg"], v.get("replay") or "", p["name"], v["index"], v["seed"]))
        if o and o.get("harness_err"):
            infra_msgs.append("harness error in %s: %s" % (p["name"], o["harness_err"][:3000]))
            continue
        if res["rc"] == 4 and o:
            continue  # hang while minimising a violation that is already in the output
        if res["rc"] != 0:
            # the worker died: panic, race report, watchdog or timeout. Every such worker is a violation in itself; only
            # the first few are classified and confirmed by re-running (a re-run of a hang costs half a minute)
            crashes_handled += 1
            if crashes_handled > 3 and any(True for _ in viols):
                continue
            b = race_binary if p["race"] else binary
            v = handle_crash(prop, p, res, b, workdir, outdir, seed)
            if v is None:
                infra_msgs.append("worker for %s [%d,%d) exited %s: %s" % (
                    p["name"], start, start + count, res["rc"], (res["stderr"] or "")[-2500:]))
            else:
                viols.append(v)

    # confirm replays in a fresh process, move them to the output directory
    reported, known_hit = [], []
    seen = {}
    for (oracle, key, msg, rpath, profile, index, rseed) in viols:
        k = (oracle, key)
        seen[k] = seen.get(k, 0) + 1
        kn = match_known(known, prop, oracle, key)
        final = ""
        if rpath and os.path.exists(rpath) and seen[k] <= 2:
            final = os.path.join(outdir, "%s-%s-%s.json" % (prop, profile, index))
            shutil.copy(rpath, final)
            if not rpath.endswith(".crash.json"):
                b = race_binary if any(pp["race"] and pp["name"] == profile for pp in pd["profiles"]) else binary
                rr = run_worker(b, {"mode": "replay", "replay": final}, workdir, "r%s%s" % (profile, index), 600)
                ok = rr["out"] and rr["out"].get("reproduced")
                if not ok:
                    # the minimised tape does not reproduce in a fresh process (minimisation ran in the process of the
                    # failing batch): fall back to the original run, regenerated from its seed
                    rf = json.load(open(final))
                    alt = dict(rf, from_seed=True, tape=None, minimised=False, log_hash="")
                    json.dump(alt, open(final, "w"), indent=1)
                    tries, rr2 = 0, None
                    for tries in range(1, 16):
                        rr2 = run_worker(b, {"mode": "replay", "replay": final}, workdir, "s%s%s" % (profile, index), 600)
                        if rr2["out"] and rr2["out"].get("reproduced"):
                            break
                    if rr2["out"] and rr2["out"].get("reproduced"):
                        alt["trace"] = rr2["out"].get("trace") or alt.get("trace")
                        if tries == 1:
                            alt["log_hash"] = rr2["out"].get("log_hash") or ""
                            alt["note"] = "the minimised tape did not reproduce in a fresh process; this file replays the original run from its seed"
                        else:
                            # the outcome depends on a choice the Go runtime makes (which ready select case, which runnable
                            # goroutine inside a burst): the replay command repeats the run until it shows
                            alt["attempts"] = 40
                            alt["note"] = ("replays the original run from its seed; the violation showed in attempt %d: it depends on a choice "
                                           "of the Go runtime (ready select cases / goroutines inside a burst), so the replay repeats the run" % tries)
                        json.dump(alt, open(final, "w"), indent=1)
                    else:
                        rf["note"] = "replay in a fresh process did not reproduce the recorded log hash / oracle"
                        json.dump(rf, open(final, "w"), indent=1)
                        infra_msgs.append("replay of %s diverged" % final)
        if kn:
            known_hit.append((kn, oracle, key, msg, final))
        else:
            reported.append((oracle, key, msg, final))

    wall = time.time() - t0
    write_evidence(prop, tier, seed, meta, agg, wall, reported, known_hit, wall_cap_hit, pd)

    printed = set()
    for kn, oracle, key, msg, final in known_hit:
        ident = (oracle, key)
        if ident in printed:
            continue
        printed.add(ident)
        print("KNOWN-FINDING: property=%s %s [%s/%s]" % (prop, kn["what"], oracle, key), flush=True)
    printed = set()
    for oracle, key, msg, final in reported:
        ident = (oracle, key)
        if ident in printed and not final:
            continue
        printed.add(ident)
        print("VIOLATION property=%s replay=%s oracle=%s key=%s msg=%s" % (prop, final or "-", oracle, key, msg[:300]), flush=True)
    print("%s %s: runs=%d steps=%d distinct=%d sim_s=%.1f wall_s=%.1f violations=%d known=%d" % (
        prop, tier, agg["runs"], agg["steps"], len(agg["sigs"]), agg["sim_ns"] / 1e9, wall, len(reported), len(known_hit)), flush=True)
    if reported:
        return 1
    if infra_msgs:
        for m in infra_msgs:
            print("INFRA-ERROR: " + "\n".join(m.split("\n")[:12]), flush=True)
        return 2
    if agg["runs"] == 0:
        infra("no runs executed")
    return 0


def merge(agg, o, profile):
    agg["runs"] += o["runs"]
    agg["steps"] += o["steps"]
    agg["sim_ns"] += o["sim_ns"]
    for f in ("faults", "faults_conf", "hooks", "probes"):
        for k, v in (o.get(f) or {}).items():
            agg[f][k] = agg[f].get(k, 0) + v
    agg["cells"].update(o.get("cells") or [])
    agg["sigs"].update((profile + ":" + s) for s in (o.get("sigs") or []))
    agg["nontrivial"] += o.get("nontrivial_runs", 0)
    if o.get("sigs_truncated"):
        agg["sigs_truncated"] = True
    agg["leaked"] += o.get("leaked", 0)
    pr = agg["profiles"].setdefault(profile, {"runs": 0, "wall_s": 0.0})
    pr["runs"] += o["runs"]
    pr["wall_s"] += o.get("wall_s", 0)
    for s in (o.get("samples") or []):
        if len(agg["samples"]) < 6 and not any(x.get("profile") == profile for x in agg["samples"]):
            agg["samples"].append({"profile": profile, "case": s})


def handle_crash(prop, p, res, binary, workdir, outdir, seed):
    """Turns a dead worker into a violation tuple if the crash is attributable to library code."""
    text = (res["stdout"] or "") + "\n" + (res["stderr"] or "")
    j = res["journal"]
    if j is None:
        return None
    index, rseed = j
    crash = os.path.join(workdir, "%s-%s-%d.crash.json" % (prop, p["name"], index))
    rf = {"property": prop, "profile": p["name"], "seed": rseed, "index": index, "tape": None, "from_seed": True,
          "sweep_pos": (index % p["sweep"]) if p.get("sweep") else 0,
          "minimised": False, "note": "crash-class violation: replay regenerates the run from its seed in a child process"}
    if res["rc"] == 3 or "WATCHDOG:" in text:
        c = classify_hang(res.get("dump") or text)
        if c is None:
            return None
        oracle, key, ex = c
    else:
        kind, key, ex = classify_crash(text)
        if kind == "panic":
            oracle = "panic"
        elif kind == "race":
            oracle = "data-race"
        else:
            return None
    rf.update(oracle=oracle, key=key, msg=ex.split("\n")[0][:300], trace=ex.split("\n")[:120])
    json.dump(rf, open(crash, "w"), indent=1)
    # confirm by re-running the seed alone (races: up to 20 attempts)
    attempts = 20 if oracle == "data-race" else 1
    confirmed = False
    for a in range(attempts):
        rr = run_worker(binary, {"mode": "replay", "replay": crash}, workdir, "c%s%d_%d" % (p["name"], index, a), 900)
        t2 = (rr["stdout"] or "") + "\n" + (rr["stderr"] or "")
        if rr["rc"] == 3 or "WATCHDOG:" in t2:
            c2 = classify_hang(rr.get("dump") or t2)
            if c2 and c2[0] == oracle:
                confirmed = True
                break
        elif rr["rc"] != 0:
            k2 = classify_crash(t2)
            if (k2[0] == "panic" and oracle == "panic") or (k2[0] == "race" and oracle == "data-race"):
                confirmed = True
                break
    rf["confirmed_by_rerun"] = confirmed
    json.dump(rf, open(crash, "w"), indent=1)
    return (oracle, key, rf["msg"], crash, p["name"], index, rseed)


def do_replay(prop, path, repo, workdir):
    rf = json.load(open(path))
    binary = build(workdir, repo, rf.get("oracle") == "data-race" or rf.get("profile", "").startswith("race"))
    for _attempt in range(max(1, int(rf.get("attempts") or 1))):
        rr = run_worker(binary, {"mode": "replay", "replay": os.path.abspath(path), "logs": True}, workdir, "replay", 1800)
        if rr["rc"] != 0 or (rr["out"] or {}).get("violations"):
            break
    text = (rr["stdout"] or "") + "\n" + (rr["stderr"] or "")
    if rr["rc"] != 0:
        if rr["rc"] == 3 or "WATCHDOG:" in text:
            c = classify_hang(rr.get("dump") or text)
            if c:
                print("\n".join(c[2].split("\n")[:60]))
                print("VIOLATION property=%s replay=%s oracle=%s key=%s" % (prop, path, c[0], c[1]))
                return 1
        kind, key, ex = classify_crash(text)
        if kind in ("panic", "race"):
            print(ex)
            print("VIOLATION property=%s replay=%s oracle=%s key=%s" % (prop, path, "panic" if kind == "panic" else "data-race", key))
            return 1
        infra("replay worker exited %s:\n%s" % (rr["rc"], text[-3000:]))
    o = rr["out"]
    if not o:
        infra("replay produced no output")
    print("\n".join(o.get("trace") or []))
    if os.environ.get("VERIF_LOGS"):
        print("\n".join(l for l in (rr["stderr"] or "").splitlines() if l.startswith("DBG"))[:20000])
        for role, lines in sorted((o.get("role_logs") or {}).items()):
            for l in lines:
                print("[%s] %s" % (role, l))
    if o.get("violations"):
        v = o["violations"][0]
        print("log_hash=%s recorded=%s" % (o.get("log_hash"), rf.get("log_hash")))
        print("VIOLATION property=%s replay=%s oracle=%s key=%s msg=%s" % (prop, path, v["oracle"], v["key"], v["msg"][:300]))
        return 1
    print("replay: no violation")
    return 0


def write_evidence(prop, tier, seed, meta, agg, wall, reported, known_hit, wall_cap_hit, pd):
    evdir = os.environ.get("VERIF_EVIDENCE_DIR") or os.path.join(VERIF, "evidence")  # seeded-change runs write elsewhere
    os.makedirs(evdir, exist_ok=True)
    hours = max(wall, 1e-9) / 3600.0
    cov = {
        "evaluations": agg["runs"],
        "distinct_nontrivial": len(agg["sigs"]),
        "rule": meta["rule"],
        "samples": agg["samples"] or [{"note": "no sample recorded"}],
        "runs_per_hour": int(agg["runs"] / hours),
        "seeds_per_hour": int(agg["runs"] / hours),
        "simulated_seconds": round(agg["sim_ns"] / 1e9, 3),
        "scheduler_steps": agg["steps"],
        "nontrivial_runs": agg["nontrivial"],
        "distinct_measure": "distinct 64-bit signatures of the (configuration, action, observation) sequence chosen by the scheduler, among non-trivial runs"
                            + (" (lower bound: workers report at most 150000 signatures each)" if agg.get("sigs_truncated") else ""),
        "faults_fired": agg["faults"],
        "faults_configured": agg["faults_conf"],
        "hook_parks": agg["hooks"],
        "probes": agg["probes"],
        "coverage_cells": len(agg["cells"]),
        "coverage_cell_list": sorted(agg["cells"])[:400],
        "profiles": agg["profiles"],
        "runs_leaking_goroutines": agg["leaked"],
        "components_real": meta["real"],
        "components_stub": meta["stub"],
        "budget_runs": pd[tier],
        "wall_cap_hit": wall_cap_hit,
        "known_findings_hit": sorted(set("%s/%s: %s" % (o, k, kn["what"]) for kn, o, k, m, f in known_hit)),
        "violations_reported": [{"oracle": o, "key": k, "msg": m[:300], "replay": f} for o, k, m, f in reported][:20],
    }
    ev = {
        "property_id": prop, "tier": tier, "seed": seed, "level": meta["level"],
        "coverage": cov, "assumptions": meta["assumptions"], "wall_s": round(wall, 2),
        "violations": len(reported),
    }
    json.dump(ev, open(os.path.join(evdir, prop + ".json"), "w"), indent=1, sort_keys=True)


if __name__ == "__main__":
    try:
        main()
    except SystemExit:
        raise
    except BaseException:  # never let a runner bug look like a violation (exit 1)
        import traceback
        traceback.print_exc()
        print("INFRA-ERROR: runner crashed", flush=True)
        sys.exit(2)
